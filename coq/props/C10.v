(* props/C10.v -- Property C10: reported results do not depend on what was read or computed
   before.  Statements only. *)
From Coq Require Import ZArith List Bool Reals.
From GTCV Require Import Num RNum Vector Opres KTypes Kernel LPU History HistoryR.
Import ListNotations.

(* operands (and every other existing number) are never modified by an operation -- whether
   it succeeds or raises -- for every operation of the session machine and every history;
   only the lazily computed uncertainty cache of an object can be filled in *)
Theorem C10_step_keeps_objects :
  forall (N : Num) (s : KTypes.state (T N)) (o : KTypes.op (T N)), objs_kept N s (fst (step N s o)).
Proof. exact step_keeps_objects. Qed.
Print Assumptions C10_step_keeps_objects.

Theorem C10_history_keeps_objects :
  forall (N : Num) (p : list (KTypes.op (T N))) (s : KTypes.state (T N)), objs_kept N s (fst (run N s p)).
Proof. exact run_keeps_objects. Qed.
Print Assumptions C10_history_keeps_objects.

(* two reads agree *)
Theorem C10_read_idempotent :
  forall (N : Num) (s : KTypes.state (T N)) o c u c',
    prop_u N s o c = Ok (u, c') -> prop_u N s o c' = Ok (u, c').
Proof. exact read_u_idempotent. Qed.
Print Assumptions C10_read_idempotent.

(* variance(y) and get_covariance(y,y) agree *)
Theorem C10_variance_covariance_agree :
  forall (s : KTypes.state R) (y : KTypes.ureal R),
    leaves_exist s (dc y) -> corr_sym_on s (dc y) -> Vector.sorted (N:=RNum) (uc y) ->
    std_covariance_real RNum s y y = std_variance_real RNum s y.
Proof. exact covariance_self_is_variance. Qed.
Print Assumptions C10_variance_covariance_agree.

(* the full statement is FALSE of the faithful model (known finding C10-cache): a result read
   before a correlation among its inputs is declared keeps reporting the old uncertainty *)
Theorem C10_cache_refuted :
  exists (s : KTypes.state R) (y : KTypes.ureal R) (u_cached v_now : R),
    unode y = NoNode /\
    prop_u RNum s y (Some u_cached) = Ok (u_cached, Some u_cached) /\
    std_variance_real RNum s y = Ok v_now /\
    (u_cached * u_cached <> v_now)%R.
Proof. exact cache_leaks_history. Qed.
Print Assumptions C10_cache_refuted.

(* props/C14.v -- Property C14: type-B line fits propagate data uncertainty through the fit.
   Statements only, closed by lemmas of TypeBFacts.v (and C02 / C04 facts); everything is about
   the GENERATED fit code (gen/Gen_type_b.v, regenerated from GTC/type_b.py and type_a.py on
   every run) evaluated over the reals. *)
From Coq Require Import ZArith List Bool Reals Lra.
From Coquelicot Require Import Coquelicot.
From GTCV Require Import Num RNum Vector VectorFacts Opres KTypes Kernel DerivTable ChainRule LPU TBLib TypeB TypeBFacts.
From GTCV.gen Require Import Gen_type_b.
Import ListNotations.
Local Open Scope R_scope.

(* (1) type_b.line_fit, for EVERY number of points and every mix of plain / uncertain data:
   the uncertain numbers a and b it returns are built by +,-,*,/ only (so the chain rule of C02
   applies at every data point) and, as functions of ALL the data, their values are the
   closed-form ordinary least-squares estimators wherever N*Sxx - Sx^2 <> 0 *)
Theorem C14_line_fit_is_least_squares :
  forall (Fi : nat -> env -> R) ev vo co (xm ym : list (TBLib.mval RNum)) a b ssr n,
    g_line_fit RNum ev vo co xm ym = Ok (a, b, ssr, n) ->
    List.Forall wf xm -> List.Forall wf ym ->
    length xm = length ym /\ wf a /\ wf b /\ is_ME RNum a = true /\
    forall e, ols_det (dlist Fi xm e) <> 0 ->
      den Fi a e = ols_a (dlist Fi xm e) (dlist Fi ym e) /\
      den Fi b e = ols_b (dlist Fi xm e) (dlist Fi ym e).
Proof. exact line_fit_closed_form. Qed.
Print Assumptions C14_line_fit_is_least_squares.

(* (2) the closed forms are the unique solution of the normal equations of the least-squares
   problem  sum (y_i - a - b x_i) = 0,  sum x_i (y_i - a - b x_i) = 0 *)
Theorem C14_ols_solves_normal_equations :
  forall (X Y : list R), length X = length Y -> ols_det X <> 0 ->
    rsum (map (fun p => snd p - ols_a X Y - ols_b X Y * fst p) (combine X Y)) = 0 /\
    rsum (map (fun p => fst p * (snd p - ols_a X Y - ols_b X Y * fst p)) (combine X Y)) = 0.
Proof. exact ols_normal_equations. Qed.
Print Assumptions C14_ols_solves_normal_equations.

Theorem C14_normal_equations_unique :
  forall (X Y : list R) a b a' b', length X = length Y -> ols_det X <> 0 ->
    rsum (map (fun p => snd p - a - b * fst p) (combine X Y)) = 0 ->
    rsum (map (fun p => fst p * (snd p - a - b * fst p)) (combine X Y)) = 0 ->
    rsum (map (fun p => snd p - a' - b' * fst p) (combine X Y)) = 0 ->
    rsum (map (fun p => fst p * (snd p - a' - b' * fst p)) (combine X Y)) = 0 ->
    a = a' /\ b = b'.
Proof. exact normal_equations_unique. Qed.
Print Assumptions C14_normal_equations_unique.

(* (3) hence, in a session state s whose slots denote the functions Fi of the elementary inputs
   (C02), for the objects oa, ob that line_fit returns and every elementary input k (a datum
   y_i or x_i itself, or anything the data depend on -- a shared systematic error, a common
   factor): the values are the least-squares estimates and reporting.sensitivity /
   u_component are the partial derivative of the ESTIMATOR (as a function of all data) w.r.t.
   that input, resp. u(k) times it *)
Theorem C14_line_fit_propagates :
  forall (U : key -> R) (I : key -> bool) (e0 : env) (s : KTypes.state R) (Fi : nat -> env -> R),
    attrs_ok U I s ->
    (forall i j o c, get_real RNum s i = Ok (j, o, c) -> Den U I e0 o (Fi i)) ->
    forall x y a b ssr n oa ob k lf xk,
    g_line_fit RNum (ev_in RNum s) (varof_in RNum s) (covof_in RNum s)
               (map (arg_mval RNum) x) (map (arg_mval RNum) y) = Ok (a, b, ssr, n) ->
    eval_obj RNum s a = Ok oa -> eval_obj RNum s b = Ok ob ->
    Kernel.assoc (s_leaves s) k = Some lf -> unode xk = LeafRef k -> 0 < U k ->
    locally (e0 k) (fun t => ols_det (dargs Fi x (upd e0 k t)) <> 0) ->
    ols_det (dargs Fi x e0) <> 0 ->
    length x = length y /\
    ux oa = ols_a (dargs Fi x e0) (dargs Fi y e0) /\ ux ob = ols_b (dargs Fi x e0) (dargs Fi y e0) /\
    exists Da Db,
      is_derive (fun t => ols_a (dargs Fi x (upd e0 k t)) (dargs Fi y (upd e0 k t))) (e0 k) Da /\
      is_derive (fun t => ols_b (dargs Fi x (upd e0 k t)) (dargs Fi y (upd e0 k t))) (e0 k) Db /\
      sensitivity RNum s oa xk = Ok Da /\ u_component RNum s oa xk = Ok (U k * Da) /\
      sensitivity RNum s ob xk = Ok Db /\ u_component RNum s ob xk = Ok (U k * Db).
Proof. exact line_fit_propagates. Qed.
Print Assumptions C14_line_fit_propagates.

(* (3w) type_b.line_fit_wls, for every N: the weights are plain numbers v_i (the variances y_i.v
   read from the session, or u_y_i**2) and u_i with u_i^2 = v_i; a and b are +,-,*,/ trees whose
   value functions are the closed-form WEIGHTED least-squares estimators (weights 1/v_i), which
   solve the weighted normal equations; hence sensitivity / u_component are the partial
   derivatives of the weighted estimator w.r.t. every input *)
Theorem C14_line_fit_wls_is_weighted_least_squares :
  forall (Fi : nat -> env -> R) ev vo co (xm ym : list (TBLib.mval RNum)) uy a b ssr n,
    g_line_fit_wls RNum ev vo co xm ym uy = Ok (a, b, ssr, n) ->
    List.Forall wf xm -> List.Forall wf ym ->
    (forall l0, uy = Some l0 -> List.Forall (fun u => is_ME RNum u = false) l0 /\ length l0 = length xm) ->
    exists V U : list R,
      length xm = length ym /\ length V = length xm /\ length U = length xm /\
      Forall2 (fun v u => u * u = v) V U /\
      (uy = None -> Forall2 (fun y v => vo y = Ok v) ym V) /\
      (forall l0, uy = Some l0 -> l0 = map (@MN RNum) U) /\
      wf a /\ wf b /\ is_ME RNum a = true /\
      forall e, let D := mkD (dlist Fi xm e) (dlist Fi ym e) V U in
        good D -> Sw D <> 0 -> wls_det D <> 0 -> den Fi a e = wls_a D /\ den Fi b e = wls_b D.
Proof. exact line_fit_wls_closed_form. Qed.
Print Assumptions C14_line_fit_wls_is_weighted_least_squares.

Theorem C14_wls_solves_normal_equations :
  forall D : list pt, Sw D <> 0 -> wls_det D <> 0 ->
    rsum (map (fun d => (py d - wls_a D - wls_b D * px d) / pv d) D) = 0 /\
    rsum (map (fun d => px d * (py d - wls_a D - wls_b D * px d) / pv d) D) = 0.
Proof. exact wls_normal_equations. Qed.
Print Assumptions C14_wls_solves_normal_equations.

Theorem C14_line_fit_wls_propagates :
  forall (U_ : key -> R) (I : key -> bool) (e0 : env) (s : KTypes.state R) (Fi : nat -> env -> R),
    attrs_ok U_ I s ->
    (forall i j o c, get_real RNum s i = Ok (j, o, c) -> Den U_ I e0 o (Fi i)) ->
    forall x y (u_y : option (list R)) a b ssr n oa ob k lf xk,
    g_line_fit_wls RNum (ev_in RNum s) (varof_in RNum s) (covof_in RNum s)
               (map (arg_mval RNum) x) (map (arg_mval RNum) y) (option_map (nums RNum) u_y) = Ok (a, b, ssr, n) ->
    (forall l, u_y = Some l -> length l = length x) ->
    eval_obj RNum s a = Ok oa -> eval_obj RNum s b = Ok ob ->
    Kernel.assoc (s_leaves s) k = Some lf -> unode xk = LeafRef k -> 0 < U_ k ->
    exists V Uu : list R,
      length V = length x /\ length Uu = length x /\ Forall2 (fun v u => u * u = v) V Uu /\
      (u_y = None -> Forall2 (fun yi v => varof_in RNum s yi = Ok v) (map (arg_mval RNum) y) V) /\
      (forall l, u_y = Some l -> l = Uu) /\
      let D := fun e => mkD (dargs Fi x e) (dargs Fi y e) V Uu in
      (locally (e0 k) (fun t => good (D (upd e0 k t)) /\ Sw (D (upd e0 k t)) <> 0 /\ wls_det (D (upd e0 k t)) <> 0) ->
       good (D e0) -> Sw (D e0) <> 0 -> wls_det (D e0) <> 0 ->
       ux oa = wls_a (D e0) /\ ux ob = wls_b (D e0) /\
       exists Da Db,
         is_derive (fun t => wls_a (D (upd e0 k t))) (e0 k) Da /\
         is_derive (fun t => wls_b (D (upd e0 k t))) (e0 k) Db /\
         sensitivity RNum s oa xk = Ok Da /\ u_component RNum s oa xk = Ok (U_ k * Da) /\
         sensitivity RNum s ob xk = Ok Db /\ u_component RNum s ob xk = Ok (U_ k * Db)).
Proof. exact line_fit_wls_propagates. Qed.
Print Assumptions C14_line_fit_wls_propagates.

(* (4) variance and covariance of the results are the LPU double sums over their components
   (C04), i.e. the data's uncertainties and correlations propagated through the estimator *)
Theorem C14_covariance_is_propagated :
  forall (s : KTypes.state R) (a b : KTypes.ureal R),
    unode a = NoNode -> leaves_exist s (dc a) ->
    get_covariance_real RNum s a b =
    Ok (vsum (fun k u => u * vget RNum (uc b) k) (uc a) + dsum s (dc a) (dc b)).
Proof.
  intros s a b Hn Hl. unfold get_covariance_real. cbn [T RNum]. rewrite Hn. apply std_covariance_spec. exact Hl.
Qed.
Print Assumptions C14_covariance_is_propagated.

(* (5) prediction: y_from_x builds a + b*x, x_from_y builds (mean(yseq) - a)/b (or returns a
   itself when |b| < 1e-15), both +,-,*,/ trees over a, b and the new data: C02 / C04 apply *)
Theorem C14_y_from_x :
  forall (Fi : nat -> env -> R) ev vo co a b x m,
    g_y_from_x RNum ev vo co a b x = Ok m ->
    (wf a -> wf b -> wf x -> wf m) /\ forall e, den Fi m e = den Fi a e + den Fi b e * den Fi x e.
Proof. exact y_from_x_tree. Qed.
Print Assumptions C14_y_from_x.

Theorem C14_x_from_y :
  forall (Fi : nat -> env -> R) ev vo co a b yseq m,
    g_x_from_y RNum ev vo co a b yseq = Ok m ->
    wf a -> wf b -> (forall y, In y yseq -> wf y) ->
    wf m /\
    ((exists vb, mvalue RNum ev b = Ok vb /\ Rabs vb < IZR 2535301200456459 * powerRZ 2 (-101) (* the double 1E-15 *) /\ m = a) \/
     forall e, den Fi m e = (rsum (dlist Fi yseq e) / INR (length yseq) - den Fi a e) / den Fi b e).
Proof. exact x_from_y_tree. Qed.
Print Assumptions C14_x_from_y.

(* (6) type_a.merge(a, b): value function of a plus the variation of b about its value: at the
   data point the value is a's, every derivative is the sum of the two analyses' derivatives *)
Theorem C14_merge :
  forall (Fi : nat -> env -> R) ev vo co a b tol m,
    g_merge RNum ev vo co a b (MN tol) = Ok m ->
    exists vb, mvalue RNum ev b = Ok vb /\ (wf a -> wf b -> wf m) /\
               forall e, den Fi m e = den Fi a e + (den Fi b e - vb).
Proof. exact merge_tree. Qed.
Print Assumptions C14_merge.

(* (7) "labels only label": the label step of the prediction methods is result(x, label=...).
   The translator reports whether the name `result` is bound in type_b.py: when it is, the step
   is exactly core.result (C06: same value and components); when it is not (the pinned tree: known
   finding C14-label) every labelled call raises (NameError) instead of labelling. *)
Theorem C14_label_step :
  forall (s : KTypes.state R) (m : TBLib.mval RNum) (l : Z),
    is_ME RNum m = true ->
    if g_tb_result_bound
    then forall s1 o1, finish_pred RNum s (Ok m) None = (s1, o1) -> (forall e, o1 <> OutExn e) ->
                       finish_pred RNum s (Ok m) (Some l) = step RNum s1 (OpResult (length (s_slots s)) (Some l))
    else exists e, snd (finish_pred RNum s (Ok m) (Some l)) = OutExn e.
Proof.
  intros s m l Hm. destruct g_tb_result_bound eqn:Hb.
  - destruct m as [v|t]; [discriminate|]. unfold finish_pred. rewrite Hb.
    match goal with |- forall s1 o1, match ?X with Ok p => _ | Err ex => _ end = _ -> _ =>
      destruct X as [[s1' o1']|ex] end.
    + intros s1 o1 [= <- <-] _. reflexivity.
    + intros s1 o1 H Hne. exfalso. unfold fail in H. injection H as _ <-. eapply Hne; reflexivity.
  - apply label_step_raises; assumption.
Qed.
Print Assumptions C14_label_step.

(* (8) WTLS -- PARTIAL.  Proved here only about the formulas of the per-point variance g_k
   (eqn 53 as written in `_arrays`) and of its derivative g_ka (eqn 54 as written in
   dChiSq_dalpha.arrays), transcribed by hand: the source's g_k counts the x-y covariance twice,
   its g_ka is the derivative of the CORRECT variance u2x sin^2 + u2y cos^2 - 2 sin cos cov, so
   "dChiSq_dalpha is the derivative of ChiSq" is FALSE of the code as soon as a pair is correlated
   (known finding C14-wtls-cov, replayed on the implementation on every run) and true for
   uncorrelated pairs at the level of g_k.  The minimiser, the implicit-function step and the
   back-substitution are tied by bit-exact correspondence only. *)
Theorem C14_wtls_gk_refuted_partial :
  exists u2x u2y cov a D, is_derive (gk_src u2x u2y cov) a D /\ D <> gka_src u2x u2y cov a.
Proof. exact wtls_gk_derivative_refuted. Qed.
Print Assumptions C14_wtls_gk_refuted_partial.

Theorem C14_wtls_gk_partial :
  forall u2x u2y cov a,
    is_derive (gk_true u2x u2y cov) a (gka_src u2x u2y cov a) /\
    gk_src u2x u2y cov a = gk_true u2x u2y cov a - cov * sin (2 * a) /\
    is_derive (gk_src u2x u2y cov) a (gka_src u2x u2y cov a - 2 * cov * cos (2 * a)).
Proof.
  intros. split; [apply gk_true_derive|split; [apply gk_src_vs_true|apply gk_src_derive]].
Qed.
Print Assumptions C14_wtls_gk_partial.

(* non-vacuity: three points with uncertain x and y (slots 0..2 and 3..5): the generated
   line_fit succeeds, and at a data point with x = (0, 1, 2) the determinant is 6 *)
Example C14_nonvacuous :
  let xm := [ME (EVar RNum 0); ME (EVar RNum 1); ME (EVar RNum 2)] in
  let ym := [ME (EVar RNum 3); ME (EVar RNum 4); ME (EVar RNum 5)] in
  let Fi := fun (i : nat) (_ : env) => INR i in
  (exists a b ssr n, g_line_fit RNum (fun _ => Ok 0) (fun _ => Ok 0) (fun _ _ => Ok 0) xm ym = Ok (a, b, ssr, n)) /\
  List.Forall wf xm /\ List.Forall wf ym /\
  ols_det (dlist Fi xm (fun _ => 0)) = 6.
Proof.
  intros xm ym Fi. split; [|split; [|split]].
  - unfold g_line_fit, xm, ym. unfold mcmp, mlen, mvalue. cbn [bind length]. rr. unfold Reqb.
    destruct (Req_EM_T (IZR (Z.of_nat 3)) (IZR (Z.of_nat 3))) as [_|ne]; [|exfalso; apply ne; reflexivity].
    cbn -[pow_R]. unfold fsum_with. cbn -[pow_R]. rewrite !pow_R_2. cbn. do 4 eexists. reflexivity.
  - repeat constructor.
  - repeat constructor.
  - unfold ols_det, Sq, rsum, dlist, xm, Fi. simpl. lra.
Qed.

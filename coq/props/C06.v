(* props/C06.v -- Property C06: declaring an intermediate result is transparent.
   Statements only.  (The chain rule THROUGH intermediates -- sensitivity(w,m) -- is covered by
   correspondence and the oracle; see PARTIAL in harness/p_C06.py.) *)
From Coq Require Import ZArith List Bool.
From GTCV Require Import Num Vector Opres KTypes Kernel Transparency.
Import ListNotations.

(* result(y) has exactly the value and the independent/dependent components of y; only a new
   intermediate uid with component u(y) is added to the intermediate vector *)
Theorem C06_result_same :
  forall (N : Num) (s : KTypes.state (T N)) a label ja oa c s' x' u' d' i' k',
    get_real N s a = Ok (ja, oa, c) -> unode oa = NoNode ->
    step N s (OpResult a label) = (s', OutObj x' u' d' i' k') ->
    x' = ux oa /\ u' = uc oa /\ d' = dc oa /\
    exists k un, k' = KInterm k /\ i' = merge (ic oa) [(k, un)] /\
                 (exists c1, prop_u N (mkS (s_ctx s) (s_ne s) (s_ni s + 1)%Z (s_leaves s) (s_nodes s) (s_ens s) (s_slots s)) oa c = Ok (un, c1)).
Proof. exact result_same. Qed.
Print Assumptions C06_result_same.

(* every later result is identical whether or not intermediates were declared along the way:
   two states whose objects agree in value and independent/dependent components (one may
   have declared some of them intermediate) evaluate every expression tree to results that
   agree again -- for every number instance, i.e. bit for bit in binary64 *)
Theorem C06_transparent :
  forall (N : Num) (s s' : KTypes.state (T N)),
    (forall i, match get_real N s i, get_real N s' i with
               | Ok (_, o, _), Ok (_, o', _) => same_core N o o'
               | Err e, Err e' => e = e'
               | _, _ => False
               end) ->
    forall e, res_equiv N (eval_un N s e) (eval_un N s' e).
Proof. exact eval_un_congr. Qed.
Print Assumptions C06_transparent.

(* ... and so are the reports about them *)
Theorem C06_reports_transparent :
  forall (N : Num) (s : KTypes.state (T N)) (a a' b b' x : KTypes.ureal (T N)) k,
    same_core N a a' -> same_core N b b' -> unode x = LeafRef k ->
    std_variance_real N s a = std_variance_real N s a' /\
    std_covariance_real N s a b = std_covariance_real N s a' b' /\
    u_component N s a x = u_component N s a' x /\
    sensitivity N s a x = sensitivity N s a' x.
Proof.
  intros N s a a' b b' x k Ha Hb Hx. repeat split.
  - apply std_variance_congr; auto.
  - apply std_covariance_congr; auto.
  - eapply u_component_congr; eauto.
  - eapply sensitivity_congr; eauto.
Qed.
Print Assumptions C06_reports_transparent.

(* props/C07.v -- Property C07: archived uncertain numbers are restored with no loss of
   information.  Statements only; proofs are in ArchiveFacts.v / ArchiveRestore.v. *)
From Coq Require Import ZArith List Bool String PrimFloat.
From GTCV Require Import Num FNum Vector Opres KTypes Kernel Archive ArchiveFacts ArchiveCase ArchiveRestore.
Import ListNotations.

(* ---- the codecs lose nothing: for EVERY frozen archive (any number of leaves, intermediates,
   tags, any vectors), reading the JSON document the writer produces gives the archive back,
   the only change being that each complex pair is a list instead of a tuple ---- *)
Theorem C07_codec_json :
  forall (N : Num) (f : frozen N), frozen_ok N f -> json_decode N (json_encode N f) = Ok (json_image N f).
Proof. exact json_roundtrip. Qed.
Print Assumptions C07_codec_json.

(* same for XML (document as the reader sees it after serialisation): the only changes are
   label "" -> None, complex pairs as tuples, component names of a complex recomputed from its tag *)
Theorem C07_codec_xml :
  forall (N : Num) (f : frozen N), frozen_ok N f -> xml_decode N (xml_encode N f) = Ok (xml_image N f).
Proof. exact xml_roundtrip. Qed.
Print Assumptions C07_codec_xml.

(* ---- _thaw in a fresh session restores every archived leaf (label, u, df, independent,
   correlation table, ensemble; complex pairing = the archived one or the tuple set for a tagged
   complex) and every intermediate node record, for every frozen archive ---- *)
Theorem C07_restore_registries :
  forall (N : Num) (f : frozen N) cx' A',
    NoDup (map fst (f_leaves f)) -> NoDup (map fst (f_interm f)) ->
    thaw N (empty_ctx N) f = Ok (cx', A') ->
    cx_nodes cx' = f_interm f /\
    forall k fl, In (k, fl) (f_leaves f) ->
      exists l', assoc (cx_leaves cx') k = Some l' /\ same_but_cplx N (fresh_leaf N k fl) l'.
Proof. exact thaw_fresh_registries. Qed.
Print Assumptions C07_restore_registries.

(* ---- end to end, any storage function (pickle / JSON / XML), any reading session in which the
   load succeeds: a tagged declared-intermediate real has identical value, identical component
   vectors w.r.t. every elementary influence, identical uid, and its components w.r.t. exactly the
   archived intermediates ---- *)
Theorem C07_restore_intermediate :
  forall (N : Num) (c : codec) (cx cx0 : actx N) (A : archive N) f f' cx' A' t o k,
    freeze N cx A = Ok f -> frozen_ok N f -> transport N c f = Ok f' -> thaw N cx0 f' = Ok (cx', A') ->
    In (t, o) (a_treal A) -> unode o = NodeRef k ->
    In (t, mkU (ux o) (uc o) (dc o) (restrict_ic N (map fst (f_interm f)) (ic o)) (NodeRef k)) (a_treal A').
Proof. exact restore_intermediate. Qed.
Print Assumptions C07_restore_intermediate.

Theorem C07_restore_elementary :
  forall (N : Num) (c : codec) (cx cx0 : actx N) (A : archive N) f f' cx' A' t o k,
    freeze N cx A = Ok f -> frozen_ok N f -> transport N c f = Ok f' -> thaw N cx0 f' = Ok (cx', A') ->
    In (t, o) (a_treal A) -> unode o = LeafRef k ->
    exists o' l, In (t, o') (a_treal A') /\ ux o' = ux o /\ unode o' = LeafRef k /\ ic o' = [] /\
                 (if al_indep l then uc o' = [(k, al_u l)] /\ dc o' = [] else uc o' = [] /\ dc o' = [(k, al_u l)]).
Proof. exact restore_elementary. Qed.
Print Assumptions C07_restore_elementary.

(* ---- the full statement is FALSE of the faithful model; three concrete witnesses, each
   replayed on the implementation on every run (known findings) ---- *)

(* JSON: y = result(2*z.real + z.imag) of a correlated dof-5 ucomplex z, only y tagged, fresh session:
   the leaves come back with complex = [uid, uid] (a list); Welch-Satterthwaite on any further result
   raises AssertionError, where the original, the pickle and the XML restorations give dof 5 *)
Theorem C07_json_complex_refuted :
  restored_leaf Json L1 <> restored_leaf Pickle L1 /\
  restored_ws Json = Err AssertionError /\
  restored_ws Pickle = Ok (7%float, DFin 5%float, None) /\
  restored_ws Xml = Ok (7%float, DFin 5%float, None).
Proof.
  destruct json_complex_list_witness as (A & B & C & D & E & F & G).
  split; [rewrite A, C; intros H; inversion H|].
  split; [exact D|]. split; [rewrite F; exact G|exact G].
Qed.
Print Assumptions C07_json_complex_refuted.

(* XML: label "" is restored as None in a fresh session and the reload is refused (uid in use) in
   the writing session; JSON keeps it *)
Theorem C07_xml_label_refuted :
  (match store_restore NF Xml xctx xar (empty_ctx NF) with
   | Ok (cx', _) => option_map (@al_label NF) (assoc (cx_leaves cx') L1)
   | Err _ => None end) = Some None
  /\ store_restore NF Xml xctx xar xctx = Err RuntimeError.
Proof. destruct xml_empty_label_witness as (A & B & _). split; assumption. Qed.
Print Assumptions C07_xml_label_refuted.

(* every format: an intermediate with NaN dof cannot be read back in the session that wrote it *)
Theorem C07_nan_dof_same_session_refuted :
  store_restore NF Pickle nctx nar nctx = Err RuntimeError
  /\ store_restore NF Json nctx nar nctx = Err RuntimeError
  /\ store_restore NF Xml nctx nar nctx = Err RuntimeError
  /\ (exists r, store_restore NF Pickle nctx nar (empty_ctx NF) = Ok r).
Proof. exact nan_dof_witness. Qed.
Print Assumptions C07_nan_dof_same_session_refuted.

(* ---- non-vacuity: the hypotheses of the theorems above are met by a non-trivial archive
   (two correlated finite-dof leaves paired as a complex, one labelled intermediate) and the
   conclusions are visible on it ---- *)
Definition ex_frozen : frozen NF :=
  @mkFz NF [(L1, wleaf L1 L2); (L2, wleaf L2 L1)]
        [(M1, @mkAN NF (Some "y"%string) 0x1.52a7fa9d2f8eap+1%float 5%float)]
        [("y"%string, @FInterm NF 4%float [] [(L1, 2%float); (L2, 1%float)] [(M1, 0x1.52a7fa9d2f8eap+1%float)] (Some "y"%string) M1)]
        [] [].

Example C07_example_freeze : freeze NF wctx war = Ok ex_frozen.
Proof. reflexivity. Qed.

Example C07_example_frozen_ok : frozen_ok NF ex_frozen.
Proof.
  split.
  - intros k l Hin. simpl in Hin. destruct Hin as [E|[E|[]]]; inversion E; subst; split;
      try (intros Hinf; vm_compute in Hinf; discriminate); reflexivity.
  - intros k n Hin. simpl in Hin. destruct Hin as [E|[]]; inversion E; subst.
    intros Hinf; vm_compute in Hinf; discriminate.
Qed.

Example C07_example_restored :
  forall c, match store_restore NF c wctx war (empty_ctx NF) with
            | Ok (cx', A') => a_treal A' = [("y"%string, wy)] /\ cx_nodes cx' = cx_nodes wctx
            | Err _ => False
            end.
Proof. intros []; split; reflexivity. Qed.

Example C07_example_nodup : NoDup (map fst (f_leaves ex_frozen)) /\ NoDup (map fst (f_interm ex_frozen)).
Proof.
  split; simpl; repeat constructor; simpl; try tauto.
  intros [H|[]]. inversion H.
Qed.

(* TBCase.v -- support for the generated correspondence case files of C14: a case is a context
   id, the oracle table recorded on the implementation, a program of fit operations (TypeB.fop)
   and the outputs the implementation produced; run_fcase evaluates the FNum model and
   returns -1 for agreement or the index of the first differing step. *)
From Coq Require Import ZArith List PrimFloat.
From GTCV Require Import Num FNum Vector Opres KTypes Kernel TBLib TypeB.
Import ListNotations.

Definition fcase := (Z * list oracle_entry * list (fop float) * list (out float))%type.

Definition run_fcase (c : fcase) : Z :=
  let '(ctx, tbl, prog, expected) := c in
  let N := FNum tbl in
  match first_mismatch N 0 (snd (frun N (init N ctx) prog)) expected with
  | None => (-1)%Z
  | Some i => Z.of_nat i
  end.

Definition report_fcases (cs : list fcase) : list Z := map run_fcase cs.

(* the model's own output at a given step, for diagnosis *)
Definition fmodel_out (c : fcase) (i : nat) : option (out float) :=
  let '(ctx, tbl, prog, _) := c in
  let N := FNum tbl in nth_error (snd (frun N (init N ctx) prog)) i.

(* RNum.v -- the real-number instance of Num (see Num.v) *)
From Coq Require Import ZArith List Bool Reals.
From GTCV Require Import Num.
Import ListNotations.

(* ================= RNum : the reals ================= *)
Local Open Scope R_scope.

Definition Reqb (x y : R) : bool := if Req_EM_T x y then true else false.
Definition Rltb (x y : R) : bool := if Rlt_dec x y then true else false.
Definition Rleb (x y : R) : bool := if Rle_dec x y then true else false.

Definition R_div (x y : R) : res R :=
  if Req_EM_T y 0 then Err ZeroDivisionError else Ok (x / y).

(* the mathematical functions, with the domain errors Python raises made explicit *)
Definition asin_R (x : R) : R := asin x.
Definition acos_R (x : R) : R := acos x.
Definition asinh_R (x : R) : R := arcsinh x.
Definition acosh_R (x : R) : R := ln (x + sqrt (x * x - 1)).
Definition atanh_R (x : R) : R := / 2 * ln ((1 + x) / (1 - x)).
Definition log10_R (x : R) : R := ln x / ln 10.

(* atan2 on the reals (principal value in (-pi, pi]) *)
Definition atan2_R (y x : R) : R :=
  if Rlt_dec 0 x then atan (y / x)
  else if Rlt_dec x 0 then
         (if Rle_dec 0 y then atan (y / x) + PI else atan (y / x) - PI)
  else if Rlt_dec 0 y then PI / 2
  else if Rlt_dec y 0 then - PI / 2
  else 0.

Definition R_libm1 (f : fn) (x : R) : res R :=
  match f with
  | F_exp => Ok (exp x)
  | F_log => if Rlt_dec 0 x then Ok (ln x) else Err ValueError
  | F_log10 => if Rlt_dec 0 x then Ok (log10_R x) else Err ValueError
  | F_sqrt => if Rle_dec 0 x then Ok (sqrt x) else Err ValueError
  | F_sin => Ok (sin x)
  | F_cos => Ok (cos x)
  | F_tan => Ok (tan x)
  | F_asin => if Rle_dec (-1) x then if Rle_dec x 1 then Ok (asin_R x)
              else Err ValueError else Err ValueError
  | F_acos => if Rle_dec (-1) x then if Rle_dec x 1 then Ok (acos_R x)
              else Err ValueError else Err ValueError
  | F_atan => Ok (atan x)
  | F_sinh => Ok (sinh x)
  | F_cosh => Ok (cosh x)
  | F_tanh => Ok (tanh x)
  | F_asinh => Ok (asinh_R x)
  | F_acosh => if Rle_dec 1 x then Ok (acosh_R x) else Err ValueError
  | F_atanh => if Rlt_dec (-1) x then if Rlt_dec x 1 then Ok (atanh_R x)
               else Err ValueError else Err ValueError
  | _ => Err OtherExn
  end.

(* x ** y for real x, y as Python's float ** defines it, where the result is real:
   integer-valued exponent: repeated multiplication / division (ZeroDivisionError for 0 to a
   negative power); otherwise positive base: exp (y ln x); zero base: 0 for y > 0, else
   ZeroDivisionError; negative base with a non-integer exponent: Python returns a complex
   number (ComplexResult). *)
Definition pow_R (x y : R) : res R :=
  let n := Int_part y in
  if Req_EM_T y (IZR n) then
    (if Req_EM_T x 0 then (if Z.ltb n 0 then Err ZeroDivisionError else Ok (powerRZ x n))
     else Ok (powerRZ x n))
  else if Rlt_dec 0 x then Ok (Rpower x y)
  else if Req_EM_T x 0 then (if Rlt_dec 0 y then Ok 0 else Err ZeroDivisionError)
  else Err ComplexResult.

Definition R_libm2 (f : fn) (x y : R) : res R :=
  match f with
  | F_atan2 => Ok (atan2_R x y)
  | F_pow => pow_R x y
  | F_copysign => Ok (if Rlt_dec y 0 then - Rabs x else Rabs x)
  | F_hypot => Ok (sqrt (x * x + y * y))
  | _ => Err OtherExn
  end.

Definition RNum : Num := {|
  T := R;
  of_Z := IZR;
  dyad := fun m e => IZR m * powerRZ 2 e;
  c_log10e := / ln 10;
  c_inf := 0;       (* never a value of a real computation; guarded by is_inf = false *)
  add := Rplus;
  sub := Rminus;
  mul := Rmult;
  neg := Ropp;
  nabs := Rabs;
  div := R_div;
  same := Reqb;
  eqb := Reqb;
  ltb := Rltb;
  leb := Rleb;
  is_nan := fun _ => false;
  is_inf := fun _ => false;
  libm1 := R_libm1;
  libm2 := R_libm2;
  fsum := fun l => Ok (fold_right Rplus 0 l)
|}.

(* CaseLib.v -- support for the generated correspondence case files: a case is a context id,
   the libm oracle table recorded on the implementation, a program, and the outputs the
   implementation produced.  report_cases evaluates the FNum model on each program and
   returns -1 for agreement or the index of the first differing step. *)
From Coq Require Import ZArith List PrimFloat.
From GTCV Require Import Num FNum Vector Opres KTypes Kernel.
Import ListNotations.

Definition kcase := (Z * list oracle_entry * list (op float) * list (out float))%type.

Definition run_case (c : kcase) : Z :=
  let '(ctx, tbl, prog, expected) := c in
  let N := FNum tbl in
  match first_mismatch N 0 (snd (run N (init N ctx) prog)) expected with
  | None => (-1)%Z
  | Some i => Z.of_nat i
  end.

Definition report_cases (cs : list kcase) : list Z := map run_case cs.

(* the model's own output at a given step, for diagnosis *)
Definition model_out (c : kcase) (i : nat) : option (out float) :=
  let '(ctx, tbl, prog, _) := c in
  let N := FNum tbl in nth_error (snd (run N (init N ctx) prog)) i.

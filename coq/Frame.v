(* Frame.v -- C10: what an uncertain number reports depends on the session state only through
   the attributes of the leaves and nodes it refers to.  [frame s s'] says that every leaf /
   node registered in s is still registered in s' with the same uncertainty, dof, independence
   flag, correlation table, complex pairing and ensemble content (labels may differ, new leaves
   and nodes may exist).  Every report that succeeds in s then gives the same answer in s'.
   For every number instance. *)
From Coq Require Import ZArith List Bool Lia.
From GTCV Require Import Num Vector VectorFacts Opres KTypes Kernel.
Import ListNotations.

Section Frame.
  Variable N : Num.
  Notation V := (T N).
  Notation ureal := (KTypes.ureal V).
  Notation state := (KTypes.state V).
  Notation leaf := (KTypes.leaf V).
  Notation inode := (KTypes.inode V).
  Notation vec := (list (key * V)).

  Definition lrel (l l' : leaf) : Prop :=
    l_u l' = l_u l /\ l_df l' = l_df l /\ l_indep l' = l_indep l /\ l_corr l' = l_corr l /\
    l_cplx l' = l_cplx l.

  Definition frame (s s' : state) : Prop :=
    (forall k l, leaf_of N s k = Ok l ->
       exists l', leaf_of N s' k = Ok l' /\ lrel l l' /\ ens_of N s' l' = ens_of N s l) /\
    (forall k n, node_of N s k = Ok n ->
       exists n', node_of N s' k = Ok n' /\ n_u n' = n_u n /\ n_df n' = n_df n).

  Lemma lrel_refl l : lrel l l.
  Proof. repeat split. Qed.

  Lemma frame_refl s : frame s s.
  Proof.
    split.
    - intros k l H. exists l. split; [exact H|]. split; [apply lrel_refl|reflexivity].
    - intros k n H. exists n. auto.
  Qed.

  Lemma frame_trans s1 s2 s3 : frame s1 s2 -> frame s2 s3 -> frame s1 s3.
  Proof.
    intros [L12 N12] [L23 N23]. split.
    - intros k l H. destruct (L12 k l H) as [l2 [H2 [R2 E2]]].
      destruct (L23 k l2 H2) as [l3 [H3 [R3 E3]]]. exists l3. split; [exact H3|]. split.
      + destruct R2 as (a & b & c & d & e), R3 as (a' & b' & c' & d' & e').
        repeat split; congruence.
      + congruence.
    - intros k n H. destruct (N12 k n H) as [n2 [H2 [U2 D2]]].
      destruct (N23 k n2 H2) as [n3 [H3 [U3 D3]]]. exists n3. repeat split; congruence.
  Qed.

  (* states that differ only in slots / counters *)
  Lemma frame_same s s' :
    s_leaves s' = s_leaves s -> s_nodes s' = s_nodes s -> s_ens s' = s_ens s -> frame s s'.
  Proof.
    intros HL HN HE. split.
    - intros k l H. exists l. unfold leaf_of, ens_of in *. rewrite HL, HE. auto using lrel_refl.
    - intros k n H. exists n. unfold node_of in *. rewrite HN. auto.
  Qed.

  Ltac dif := match goal with |- (if ?b then _ else _) = _ -> _ => destruct b end.

  Section Reads.
    Variables s s' : state.
    Hypothesis F : frame s s'.

    Lemma corr_get_rel l l' k : lrel l l' -> corr_get N l' k = corr_get N l k.
    Proof. intros (_ & _ & _ & E & _). unfold corr_get. rewrite E. reflexivity. Qed.

    Lemma var_dep_frame d : forall var r, var_dep N s d var = Ok r -> var_dep N s' d var = Ok r.
    Proof.
      induction d as [|[k u] d IH]; intros var r; cbn [var_dep]; [auto|].
      destruct (leaf_of N s k) as [l|e] eqn:E; cbn [bind]; [|discriminate].
      destruct (proj1 F k l E) as [l' [E' [R _]]]. rewrite E'. cbn [bind].
      rewrite (map_ext (fun kv => mul N (mul N (mul N (two N) u) (corr_get N l' (fst kv))) (snd kv))
                       (fun kv => mul N (mul N (mul N (two N) u) (corr_get N l (fst kv))) (snd kv)))
        by (intros; rewrite (corr_get_rel l l') by exact R; reflexivity).
      destruct (fsum N _) as [f|e]; cbn [bind]; [|discriminate]. apply IH.
    Qed.

    Lemma std_variance_frame o r : std_variance_real N s o = Ok r -> std_variance_real N s' o = Ok r.
    Proof.
      unfold std_variance_real.
      destruct (match uc o with [] => Ok (zero N) | _ => _ end) as [v0|e]; cbn [bind]; [|discriminate].
      apply var_dep_frame.
    Qed.

    Lemma cov_dep_frame d1 d2 : forall cv r, cov_dep N s d1 d2 cv = Ok r -> cov_dep N s' d1 d2 cv = Ok r.
    Proof.
      induction d1 as [|[k u] d1 IH]; intros cv r; cbn [cov_dep]; [auto|].
      destruct (leaf_of N s k) as [l|e] eqn:E; cbn [bind]; [|discriminate].
      destruct (proj1 F k l E) as [l' [E' [R _]]]. rewrite E'. cbn [bind].
      rewrite (map_ext (fun kv => mul N (mul N u (corr_get N l' (fst kv))) (snd kv))
                       (fun kv => mul N (mul N u (corr_get N l (fst kv))) (snd kv)))
        by (intros; rewrite (corr_get_rel l l') by exact R; reflexivity).
      destruct (fsum N _) as [f|e]; cbn [bind]; [|discriminate]. apply IH.
    Qed.

    Lemma std_covariance_frame o1 o2 r :
      std_covariance_real N s o1 o2 = Ok r -> std_covariance_real N s' o1 o2 = Ok r.
    Proof.
      unfold std_covariance_real. destruct (fsum N _) as [f|e]; cbn [bind]; [|discriminate].
      apply cov_dep_frame.
    Qed.

    Lemma node_u_frame o r : node_u N s o = Ok r -> node_u N s' o = Ok r.
    Proof.
      unfold node_u. destruct (unode o) as [| |k|k]; auto.
      - destruct (leaf_of N s k) as [l|e] eqn:E; cbn [bind]; [|discriminate].
        destruct (proj1 F k l E) as [l' [E' [(U & _) _]]]. rewrite E'. cbn [bind]. rewrite U. auto.
      - destruct (node_of N s k) as [n|e] eqn:E; cbn [bind]; [|discriminate].
        destruct (proj2 F k n E) as [n' [E' [U _]]]. rewrite E'. cbn [bind]. rewrite U. auto.
    Qed.

    Lemma prop_u_frame o c r : prop_u N s o c = Ok r -> prop_u N s' o c = Ok r.
    Proof.
      unfold prop_u. destruct (node_u N s o) as [nu|e] eqn:E; cbn [bind]; [|discriminate].
      rewrite (node_u_frame o nu E). cbn [bind]. destruct nu as [u|]; [auto|].
      destruct c as [u|]; [auto|].
      destruct (std_variance_real N s o) as [v|e] eqn:Ev; cbn [bind]; [|discriminate].
      rewrite (std_variance_frame o v Ev). cbn [bind]. auto.
    Qed.

    Lemma prop_v_frame o c r : prop_v N s o c = Ok r -> prop_v N s' o c = Ok r.
    Proof.
      unfold prop_v. destruct (node_u N s o) as [nu|e] eqn:E; cbn [bind]; [|discriminate].
      rewrite (node_u_frame o nu E). cbn [bind]. destruct nu as [u|]; [auto|].
      destruct c as [u|]; [auto|].
      destruct (std_variance_real N s o) as [v|e] eqn:Ev; cbn [bind]; [|discriminate].
      rewrite (std_variance_frame o v Ev). cbn [bind]. auto.
    Qed.

    Lemma all_inf_frame v : forall r, all_inf N s v = Ok r -> all_inf N s' v = Ok r.
    Proof.
      induction v as [|[k u] v IH]; intros r; cbn [all_inf]; [auto|].
      destruct (leaf_of N s k) as [l|e] eqn:E; cbn [bind]; [|discriminate].
      destruct (proj1 F k l E) as [l' [E' [(_ & D & _) _]]]. rewrite E'. cbn [bind].
      destruct (all_inf N s v) as [b|e] eqn:Eb; cbn [bind]; [|discriminate].
      rewrite (IH b eq_refl). cbn [bind]. rewrite D. auto.
    Qed.

    Lemma ws_indep_frame v : forall var lst r,
      ws_indep N s v var lst = Ok r -> ws_indep N s' v var lst = Ok r.
    Proof.
      induction v as [|[k u] v IH]; intros var lst r; cbn [ws_indep]; [auto|].
      destruct (leaf_of N s k) as [l|e] eqn:E; cbn [bind]; [|discriminate].
      destruct (proj1 F k l E) as [l' [E' [(_ & D & _) _]]]. rewrite E'. cbn [bind].
      rewrite D. apply IH.
    Qed.

    Lemma ws_inner_frame k_i l_i l_i' u_i ens_i rest : lrel l_i l_i' ->
      forall a r, ws_inner N s k_i l_i u_i ens_i rest a = Ok r ->
                  ws_inner N s' k_i l_i' u_i ens_i rest a = Ok r.
    Proof.
      intros R. pose proof R as (_ & D & _ & C & X).
      induction rest as [|[k_j u_j] rest IH]; intros a r; cbn [ws_inner]; [auto|].
      rewrite C. destruct (assoc (l_corr l_i) k_j) as [rr|]; [|apply IH].
      destruct (leaf_of N s k_j) as [l_j|e] eqn:E; cbn [bind]; [|discriminate].
      destruct (proj1 F k_j l_j E) as [l_j' [E' [(_ & Dj & _) _]]]. rewrite E'. cbn [bind].
      rewrite D, Dj, X.
      dif; [apply IH|].
      dif.
      - dif; [apply IH|auto].
      - dif; [|auto].
        match goal with |- bind ?m _ = _ -> _ => destruct m as [lst'|e]; cbn [bind]; [apply IH|auto] end.
    Qed.

    Lemma ws_elem_frame k_i u_i rest a r :
      ws_elem N s k_i u_i rest a = Ok r -> ws_elem N s' k_i u_i rest a = Ok r.
    Proof.
      unfold ws_elem.
      destruct (leaf_of N s k_i) as [l|e] eqn:E; cbn [bind]; [|discriminate].
      destruct (proj1 F k_i l E) as [l' [E' [R En]]]. rewrite E'. cbn [bind].
      pose proof R as (_ & D & _ & _ & X). rewrite En, D, X.
      destruct rest as [|[k_next u_next] rest']; [auto|].
      match goal with |- bind ?m _ = _ -> _ => destruct m as [[lst2 map2]|e]; cbn [bind]; [|discriminate] end.
      apply ws_inner_frame. exact R.
    Qed.

    Lemma ws_dep_frame d : forall a r, ws_dep N s d a = Ok r -> ws_dep N s' d a = Ok r.
    Proof.
      induction d as [|[k u] d IH]; intros a r; cbn [ws_dep]; [auto|].
      destruct (ws_elem N s k u d a) as [a'|e] eqn:E; cbn [bind]; [|discriminate].
      rewrite (ws_elem_frame k u d a a' E). cbn [bind]. apply IH.
    Qed.

    Lemma welch_frame o c r :
      welch_satterthwaite N s o c = Ok r -> welch_satterthwaite N s' o c = Ok r.
    Proof.
      unfold welch_satterthwaite. destruct (unode o) as [| |k|k] eqn:En.
      1,2,4:
        (dif; [auto|];
         destruct (all_inf N s (uc o)) as [iu|e] eqn:E1; cbn [bind]; [|discriminate];
         rewrite (all_inf_frame _ _ E1); cbn [bind];
         destruct (all_inf N s (dc o)) as [id|e] eqn:E2; cbn [bind]; [|discriminate];
         rewrite (all_inf_frame _ _ E2); cbn [bind];
         dif;
         [ destruct (prop_v N s o c) as [[v c']|e] eqn:E3; cbn [bind]; [|discriminate];
           rewrite (prop_v_frame _ _ _ E3); cbn [bind]; auto
         | destruct (ws_indep N s (uc o) (zero N) []) as [[var0 lst0]|e] eqn:E3; cbn [bind]; [|discriminate];
           rewrite (ws_indep_frame _ _ _ _ E3); cbn [bind];
           match goal with |- bind ?m _ = _ -> _ => destruct m as [a|e] eqn:E4; cbn [bind]; [|discriminate] end;
           rewrite (ws_dep_frame _ _ _ E4); cbn [bind]; auto ]).
      destruct (leaf_of N s k) as [l|e] eqn:E; cbn [bind]; [|discriminate].
      destruct (proj1 F k l E) as [l' [E' [(U & D & _) _]]]. rewrite E'. cbn [bind]. rewrite U, D. auto.
    Qed.

    Lemma prop_df_frame o c r : prop_df N s o c = Ok r -> prop_df N s' o c = Ok r.
    Proof.
      unfold prop_df. destruct (unode o) as [| |k|k] eqn:En.
      1,2:
        (destruct (welch_satterthwaite N s o c) as [[[cv d] c1]|e] eqn:E; cbn [bind]; [|discriminate];
         rewrite (welch_frame _ _ _ E); cbn [bind]; auto).
      - destruct (leaf_of N s k) as [l|e] eqn:E; cbn [bind]; [|discriminate].
        destruct (proj1 F k l E) as [l' [E' [(_ & D & _) _]]]. rewrite E'. cbn [bind]. rewrite D. auto.
      - destruct (node_of N s k) as [n|e] eqn:E; cbn [bind]; [|discriminate].
        destruct (proj2 F k n E) as [n' [E' [_ D]]]. rewrite E'. cbn [bind]. rewrite D. auto.
    Qed.

    Lemma u_component_frame y x r : u_component N s y x = Ok r -> u_component N s' y x = Ok r.
    Proof.
      unfold u_component. destruct (unode x) as [| |k|k]; auto.
      destruct (leaf_of N s k) as [l|e] eqn:E; cbn [bind]; [|discriminate].
      destruct (proj1 F k l E) as [l' [E' [(_ & _ & I & _) _]]]. rewrite E'. cbn [bind]. rewrite I. auto.
    Qed.

    Lemma sensitivity_frame y x r : sensitivity N s y x = Ok r -> sensitivity N s' y x = Ok r.
    Proof.
      unfold sensitivity. destruct (unode x) as [| |k|k]; auto.
      - destruct (leaf_of N s k) as [l|e] eqn:E; cbn [bind]; [|discriminate].
        destruct (proj1 F k l E) as [l' [E' [(U & _ & I & _) _]]]. rewrite E'. cbn [bind]. rewrite U, I. auto.
      - destruct (node_of N s k) as [n|e] eqn:E; cbn [bind]; [|discriminate].
        destruct (proj2 F k n E) as [n' [E' [U _]]]. rewrite E'. cbn [bind]. rewrite U. auto.
    Qed.

    Lemma get_covariance_frame o1 o2 r :
      get_covariance_real N s o1 o2 = Ok r -> get_covariance_real N s' o1 o2 = Ok r.
    Proof.
      unfold get_covariance_real.
      destruct (unode o1) as [| |k1|k1]; try apply std_covariance_frame.
      destruct (unode o2) as [| |k2|k2]; try apply std_covariance_frame.
      destruct (leaf_of N s k1) as [l1|e] eqn:E1; cbn [bind]; [|discriminate].
      destruct (proj1 F k1 l1 E1) as [l1' [E1' [R1 _]]]. rewrite E1'. cbn [bind].
      pose proof R1 as (U1 & _ & I1 & _). rewrite U1, I1.
      destruct (keqb k1 k2); [auto|]. destruct (l_indep l1); [auto|].
      destruct (leaf_of N s k2) as [l2|e] eqn:E2; cbn [bind]; [|discriminate].
      destruct (proj1 F k2 l2 E2) as [l2' [E2' [(U2 & _) _]]]. rewrite E2'. cbn [bind].
      rewrite U2, (corr_get_rel l1 l1') by exact R1. auto.
    Qed.

    Lemma get_correlation_frame o1 o2 r :
      get_correlation_real N s o1 o2 = Ok r -> get_correlation_real N s' o1 o2 = Ok r.
    Proof.
      unfold get_correlation_real.
      assert (G : forall r0,
        (v1 <- std_variance_real N s o1 ;; v2 <- std_variance_real N s o2 ;;
         num <- std_covariance_real N s o1 o2 ;; den <- libm1 N F_sqrt (mul N v1 v2) ;;
         if negb (eqb N num (zero N)) then div N num den else Ok (zero N)) = Ok r0 ->
        (v1 <- std_variance_real N s' o1 ;; v2 <- std_variance_real N s' o2 ;;
         num <- std_covariance_real N s' o1 o2 ;; den <- libm1 N F_sqrt (mul N v1 v2) ;;
         if negb (eqb N num (zero N)) then div N num den else Ok (zero N)) = Ok r0).
      { intros r0.
        destruct (std_variance_real N s o1) as [v1|e] eqn:E1; cbn [bind]; [|discriminate].
        rewrite (std_variance_frame _ _ E1). cbn [bind].
        destruct (std_variance_real N s o2) as [v2|e] eqn:E2; cbn [bind]; [|discriminate].
        rewrite (std_variance_frame _ _ E2). cbn [bind].
        destruct (std_covariance_real N s o1 o2) as [c|e] eqn:E3; cbn [bind]; [|discriminate].
        rewrite (std_covariance_frame _ _ _ E3). cbn [bind]. auto. }
      destruct (unode o1) as [| |k1|k1]; try apply G.
      destruct (unode o2) as [| |k2|k2]; try apply G.
      destruct (keqb k1 k2); [auto|].
      destruct (leaf_of N s k1) as [l1|e] eqn:E1; cbn [bind]; [|discriminate].
      destruct (proj1 F k1 l1 E1) as [l1' [E1' [R1 _]]]. rewrite E1'. cbn [bind].
      pose proof R1 as (_ & _ & I1 & _). rewrite I1, (corr_get_rel l1 l1') by exact R1. auto.
    Qed.
  End Reads.
End Frame.

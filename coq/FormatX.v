(* FormatX.v -- witness data for the refutation / non-vacuity examples of props/C18.v:
   the exact rational value of a binary64 float, and one recorded input (DESIGN section 7 #26)
   with the libm results the implementation obtained for it. *)
From Coq Require Import ZArith QArith List Bool PrimFloat.
From GTCV Require Import Num FNum Format FormatF FormatQ.
Import ListNotations.

Definition Q_of_float (x : float) : Q :=
  match fdecomp x with
  | Some (s, m, e) =>
      let '(a, b) := scaled_frac m e 0 in
      Qred (Qmake (if s then - a else a)%Z (Z.to_pos b))
  | None => 0
  end.

Local Open Scope float_scope.

(* format(ureal(902563.7640693213, 9.995e-07), '.5e') *)
Definition w26_x : float := 0x1.b8b4787341816p+19.
Definition w26_u : float := 0x1.0c4d1df38e8b2p-20.
Definition w26_log : list oracle_entry :=
  [(F_log10, [0x1.0c4d1df38e8b2p-20], Ok (-0x1.80038f02624ffp+2));
   (F_log10, [0x1.b8b4787341816p+19], Ok 0x1.7d268cc03d34cp+2);
   (F_log10, [0x1.5faaf4e089070p-37], Ok (-0x1.6001c7813127fp+3))].
Definition w26_p10 : list (Z * res float) :=
  [((-2)%Z, Ok 0x1.47ae147ae147bp-7);
   ((-1)%Z, Ok 0x1.999999999999ap-4);
   (0%Z, Ok 0x1.0000000000000p+0);
   (1%Z, Ok 0x1.4000000000000p+3);
   (2%Z, Ok 0x1.9000000000000p+6);
   (3%Z, Ok 0x1.f400000000000p+9);
   (4%Z, Ok 0x1.3880000000000p+13);
   (5%Z, Ok 0x1.86a0000000000p+16);
   (6%Z, Ok 0x1.e848000000000p+19);
   (7%Z, Ok 0x1.312d000000000p+23);
   (8%Z, Ok 0x1.7d78400000000p+26);
   (9%Z, Ok 0x1.dcd6500000000p+29);
   (10%Z, Ok 0x1.2a05f20000000p+33);
   (11%Z, Ok 0x1.74876e8000000p+36);
   (12%Z, Ok 0x1.d1a94a2000000p+39);
   (13%Z, Ok 0x1.2309ce5400000p+43);
   (14%Z, Ok 0x1.6bcc41e900000p+46);
   (15%Z, Ok 0x1.c6bf526340000p+49);
   (16%Z, Ok 0x1.1c37937e08000p+53);
   (17%Z, Ok 0x1.6345785d8a000p+56);
   (18%Z, Ok 0x1.bc16d674ec800p+59);
   (19%Z, Ok 0x1.158e460913d00p+63);
   (20%Z, Ok 0x1.5af1d78b58c40p+66);
   (21%Z, Ok 0x1.b1ae4d6e2ef50p+69);
   (22%Z, Ok 0x1.0f0cf064dd592p+73)].
Definition w26_args : fargs :=
  {| a_fill := None; a_align := None; a_sign := None; a_hash := false; a_zero := false;
     a_width := None; a_grouping := None; a_precision := Some 5%Z; a_type := Some Te;
     a_style := None; a_digits := None; a_df_precision := None; a_r_precision := None |}.
(* what the implementation printed: 9.0256376406932137(99950)e+05 *)
Definition w26_impl : list Z :=
  ([57; 46; 48; 50; 53; 54; 51; 55; 54; 52; 48; 54; 57; 51; 50; 49; 51; 55; 40; 57; 57; 57; 53; 48; 41;
    101; 43; 48; 53])%Z.

Definition plain_args (d : Z) (t : ty) : fargs :=
  {| a_fill := None; a_align := None; a_sign := None; a_hash := false; a_zero := false;
     a_width := None; a_grouping := None; a_precision := Some d; a_type := Some t;
     a_style := None; a_digits := None; a_df_precision := None; a_r_precision := None |}.

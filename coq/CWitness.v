(* CWitness.v -- concrete witnesses evaluated on the binary64 model (vm_compute). *)
From Coq Require Import ZArith List Bool PrimFloat.
From GTCV Require Import Num FNum Vector Opres KTypes Kernel Cplx CFNum COpres CKernel.
Import ListNotations.

Definition c01_tbl : list oracle_entry := [(F_sqrt, [0x1.2p-1%float], Ok 0x1.8p-1%float)].
Definition c01_prog : list (cop float) :=
  [CK (OpUreal 0x1p+1%float 0x1p-1%float DInf None true);
   CK (OpBin B_mul (ARef 0) (ANum 0x1.8p+0%float));
   CK (OpResult 1 None);
   CBin B_add (CArgR 2) (CArgN (NC 0x0p+0%float 0x1p+0%float));
   CBin B_mul (CArgR 2) (CArgN (NC 0x0p+0%float 0x1p+0%float));
   CBin B_mul (CArgR 2) (CArgN (NC 0x1p+1%float 0x1.8p+1%float))].
Definition c01_outs := snd (crun (FCNum c01_tbl []) (cinit (FCNum c01_tbl []) 1%Z) c01_prog).
Definition is_exn (o : out float) (e : exn) : bool :=
  match o with OutExn e' => exn_eqb e e' | _ => false end.
Lemma c01_refuted :
  (match nth 2 c01_outs OutUnit with OutObj _ _ _ _ (KInterm _) => true | _ => false end) = true /\
  is_exn (nth 3 c01_outs OutUnit) AssertionError = true /\
  is_exn (nth 4 c01_outs OutUnit) AssertionError = true /\
  (match nth 5 c01_outs OutUnit with OutList [OutObj _ _ _ _ _; OutObj _ _ _ _ _] => true | _ => false end) = true.
Proof. vm_compute. repeat split. Qed.

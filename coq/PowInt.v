(* PowInt.v -- x ** n for an integer-valued plain exponent n and ANY real base x (negative and zero
   included): Python evaluates it by repeated multiplication / division, lib.py propagates
   n * x ** (n-1).  That is the derivative of t |-> A(t) ** n wherever the value exists
   (x <> 0, or n >= 0).  Used by ChainRule.v to extend the chain-rule theorem beyond positive
   bases. *)
From Coq Require Import Reals ZArith Lia Lra.
From Coquelicot Require Import Coquelicot.
From GTCV Require Import Num RNum.

Lemma is_derive_eq' (f : R -> R) (x l l' : R) : is_derive f x l' -> l = l' -> is_derive f x l.
Proof. intros H ->. exact H. Qed.

Lemma Int_part_IZR n : Int_part (IZR n) = n.
Proof. unfold Int_part. rewrite <- (up_tech (IZR n) n); [lia | lra | rewrite plus_IZR; lra]. Qed.

(* what Python returns for x ** y where the result is a real number; 0 where it raises *)
Definition pow_sem (l r : R) : R := match pow_R l r with Ok v => v | Err _ => 0 end.

Lemma pow_R_sem l r v : pow_R l r = Ok v -> v = pow_sem l r.
Proof. unfold pow_sem. intros ->. reflexivity. Qed.

Lemma pow_R_int x n :
  pow_R x (IZR n) = if Req_EM_T x 0 then (if Z.ltb n 0 then Err ZeroDivisionError else Ok (powerRZ x n))
                    else Ok (powerRZ x n).
Proof.
  unfold pow_R. rewrite Int_part_IZR. destruct (Req_EM_T (IZR n) (IZR n)); [reflexivity|congruence].
Qed.

Lemma pow_sem_int x n : x <> 0 \/ (0 <= n)%Z -> pow_sem x (IZR n) = powerRZ x n.
Proof.
  intros H. unfold pow_sem. rewrite pow_R_int.
  destruct (Req_EM_T x 0) as [E|E]; [|reflexivity].
  destruct (Z.ltb_spec n 0); [|reflexivity]. destruct H; [contradiction|lia].
Qed.

Lemma is_derive_powerRZ (A : R -> R) t0 da (n : Z) :
  is_derive A t0 da -> A t0 <> 0 \/ (0 <= n)%Z ->
  is_derive (fun t => powerRZ (A t) n) t0 (IZR n * powerRZ (A t0) (n - 1) * da).
Proof.
  intros HA Hn. destruct n as [|p|p].
  - simpl. apply (is_derive_ext (fun _ => 1)); [reflexivity|].
    replace (0 * _ * da) with 0 by ring. apply (is_derive_const (1 : R)).
  - cbn [powerRZ].
    eapply is_derive_eq'; [apply (is_derive_pow A (Pos.to_nat p) t0 da HA)|].
    destruct (Pos2Nat.is_succ p) as [k Hk]. rewrite Hk. cbn [pred].
    replace (Z.pos p - 1)%Z with (Z.of_nat k) by lia. rewrite <- pow_powerRZ.
    replace (IZR (Z.pos p)) with (INR (S k)) by (rewrite INR_IZR_INZ; f_equal; lia). ring.
  - destruct Hn as [Hn|Hn]; [|lia]. cbn [powerRZ].
    assert (Hp : A t0 ^ Pos.to_nat p <> 0) by (apply pow_nonzero; exact Hn).
    eapply is_derive_eq';
      [apply (is_derive_inv (fun t => A t ^ Pos.to_nat p) t0 _ (is_derive_pow A (Pos.to_nat p) t0 da HA) Hp)|].
    destruct (Pos2Nat.is_succ p) as [k Hk].
    replace (Z.neg p - 1)%Z with (Z.neg (Pos.of_nat (S (S k)))) by lia. cbn [powerRZ].
    rewrite Nat2Pos.id by discriminate. revert Hp. rewrite Hk. cbn [pred]. intros Hp.
    replace (IZR (Z.neg p)) with (- INR (S k)) by (rewrite INR_IZR_INZ, <- opp_IZR; f_equal; lia).
    assert (Hk0 : A t0 ^ k <> 0) by (apply pow_nonzero; exact Hn).
    simpl pow. simpl pow in Hp. field. split; assumption.
Qed.

(* t |-> A(t) ** n through Python's semantics, for a differentiable A *)
Lemma is_derive_pow_sem_int (A : R -> R) t0 da (n : Z) :
  is_derive A t0 da -> A t0 <> 0 \/ (0 <= n)%Z ->
  is_derive (fun t => pow_sem (A t) (IZR n)) t0 (IZR n * powerRZ (A t0) (n - 1) * da).
Proof.
  intros HA Hn.
  apply (is_derive_ext_loc (fun t => powerRZ (A t) n)); [|apply is_derive_powerRZ; assumption].
  destruct Hn as [Hn|Hn].
  - assert (HEX : ex_derive A t0) by (eexists; exact HA).
    pose proof (ex_derive_continuous A t0 HEX) as Hc.
    assert (Hloc : locally t0 (fun t => A t <> 0)).
    { specialize (Hc (fun y : R => y <> 0)). apply Hc. apply (open_neq 0 (A t0)). exact Hn. }
    revert Hloc. apply filter_imp. intros t Ht. symmetry. apply pow_sem_int. left; exact Ht.
  - apply filter_forall. intros t. symmetry. apply pow_sem_int. right; exact Hn.
Qed.

(* CplxR.v -- the real-number instance of CNum: the cmath functions as maps R^2 -> R^2 on
   their principal branches (C99 Annex G / cmath conventions), with the errors Python raises
   made explicit.  On a branch cut itself the float implementation chooses the side by the
   sign of a zero; the reals have no signed zero, so the values given here ON a cut are one of
   the two sides, and every theorem about these functions excludes the cuts. *)
From Coq Require Import ZArith List Bool Reals.
From GTCV Require Import Num RNum Cplx.
Import ListNotations.
Local Open Scope R_scope.

Definition RC := (R * R)%type.

Definition cexp_R (z : RC) : RC := (exp (fst z) * cos (snd z), exp (fst z) * sin (snd z)).
Definition cabs_R (z : RC) : R := sqrt (fst z * fst z + snd z * snd z).
Definition clog_R (z : RC) : RC := (ln (cabs_R z), atan2_R (snd z) (fst z)).
Definition clog10_R (z : RC) : RC := (ln (cabs_R z) / ln 10, atan2_R (snd z) (fst z) / ln 10).
Definition sgn_R (b : R) : R := if Rlt_dec b 0 then -1 else 1.
Definition csqrt_R (z : RC) : RC :=
  (sqrt ((cabs_R z + fst z) / 2), sgn_R (snd z) * sqrt ((cabs_R z - fst z) / 2)).
Definition csin_R (z : RC) : RC := (sin (fst z) * cosh (snd z), cos (fst z) * sinh (snd z)).
Definition ccos_R (z : RC) : RC := (cos (fst z) * cosh (snd z), - (sin (fst z) * sinh (snd z))).
Definition csinh_R (z : RC) : RC := (sinh (fst z) * cos (snd z), cosh (fst z) * sin (snd z)).
Definition ccosh_R (z : RC) : RC := (cosh (fst z) * cos (snd z), sinh (fst z) * sin (snd z)).

Definition cmul_R (a b : RC) : RC := (fst a * fst b - snd a * snd b, fst a * snd b + snd a * fst b).
Definition cadd_R (a b : RC) : RC := (fst a + fst b, snd a + snd b).
Definition csub_R (a b : RC) : RC := (fst a - fst b, snd a - snd b).
Definition cnorm2 (b : RC) : R := fst b * fst b + snd b * snd b.
Definition cdiv_R (a b : RC) : RC :=
  ((fst a * fst b + snd a * snd b) / cnorm2 b, (snd a * fst b - fst a * snd b) / cnorm2 b).
Definition ci_R : RC := (0, 1).
Definition is0 (z : RC) : bool := Reqb (fst z) 0 && Reqb (snd z) 0.

Definition ctan_R (z : RC) : RC := cdiv_R (csin_R z) (ccos_R z).
Definition ctanh_R (z : RC) : RC := cdiv_R (csinh_R z) (ccosh_R z).
(* inverse functions: the principal-branch logarithm formulas *)
Definition casinh_R (z : RC) : RC := clog_R (cadd_R z (csqrt_R (cadd_R (cmul_R z z) (1, 0)))).
Definition casin_R (z : RC) : RC :=
  let w := casinh_R (cmul_R ci_R z) in (snd w, - fst w).              (* -i asinh(i z) *)
Definition cacos_R (z : RC) : RC := let w := casin_R z in (PI / 2 - fst w, - snd w).
Definition catanh_R (z : RC) : RC :=
  let w := csub_R (clog_R (cadd_R (1, 0) z)) (clog_R (csub_R (1, 0) z)) in (fst w / 2, snd w / 2).
Definition catan_R (z : RC) : RC :=
  let w := catanh_R (cmul_R ci_R z) in (snd w, - fst w).              (* -i atanh(i z) *)
Definition cacosh_R (z : RC) : RC :=
  clog_R (cadd_R z (cmul_R (csqrt_R (cadd_R z (1, 0))) (csqrt_R (csub_R z (1, 0))))).

(* a ** b for the exponents that do not take the integer path of Cplx.c_pow *)
Definition cpow_R (a b : RC) : res RC :=
  if is0 b then Ok (1, 0)
  else if is0 a then
    (if negb (Reqb (snd b) 0) || Rltb (fst b) 0 then Err ZeroDivisionError else Ok (0, 0))
  else Ok (cexp_R (cmul_R b (clog_R a))).

Definition R_cm (f : cfn) (args : list R) : res RC :=
  match f, args with
  | C_pow, [a; b; c; d] => cpow_R (a, b) (c, d)
  | C_pow, _ => Err OtherExn
  | _, [x; y] =>
      let z := (x, y) in
      match f with
      | C_exp => Ok (cexp_R z)
      | C_log => if is0 z then Err ValueError else Ok (clog_R z)
      | C_log10 => if is0 z then Err ValueError else Ok (clog10_R z)
      | C_sqrt => Ok (csqrt_R z)
      | C_sin => Ok (csin_R z)
      | C_cos => Ok (ccos_R z)
      | C_tan => if is0 (ccos_R z) then Err ValueError else Ok (ctan_R z)
      | C_sinh => Ok (csinh_R z)
      | C_cosh => Ok (ccosh_R z)
      | C_tanh => if is0 (ccosh_R z) then Err ValueError else Ok (ctanh_R z)
      | C_asin => Ok (casin_R z)
      | C_acos => Ok (cacos_R z)
      | C_atan => if is0 (cadd_R (1, 0) (cmul_R z z)) then Err ValueError else Ok (catan_R z)
      | C_asinh => Ok (casinh_R z)
      | C_acosh => Ok (cacosh_R z)
      | C_atanh => if is0 (cmul_R (csub_R (1, 0) z) (cadd_R (1, 0) z)) then Err ValueError
                   else Ok (catanh_R z)
      | C_pow => Err OtherExn
      end
  | _, _ => Err OtherExn
  end.

Definition RCNum : CNum := {| cN := RNum; cm := R_cm |}.

(* ReachableCS.v -- C04: in every reachable state whose declared correlation matrix is positive
   semi-definite, get_correlation of any two results lies in [-1, 1] and
   cov(a,b)^2 <= var(a) var(b).  (Invariant.v supplies symmetry, the unit diagonal, sorted
   component vectors and the existence of every referenced leaf; PSD is the hypothesis the
   property states.) *)
From Coq Require Import ZArith List Bool Reals Lia Lra.
From GTCV Require Import Num RNum Vector VectorFacts Opres KTypes Kernel LPU Invariant Reachable CauchySchwarz.
Import ListNotations.
Local Open Scope R_scope.

(* the inputs among which correlations can be declared: the registered dependent leaves *)
Definition dep_leaf (s : KTypes.state R) (k : key) : Prop :=
  exists l, lookup (s_leaves s) k = Some l /\ l_indep l = false.

Section Reach.
  Variable s : KTypes.state R.
  Hypothesis HI : Inv RNum s.

  Lemma dep_sym : sym_on s (dep_leaf s).
  Proof. intros k k' [l [Hl _]] [l' [Hl' _]]. eapply Rs_sym; eauto. Qed.

  Lemma dep_diag k : dep_leaf s k -> Rs s k k = 1.
  Proof.
    intros [l [Hl Hi]].
    destruct HI as [[_ [_ [_ [D1 _]]]] _]. destruct (D1 _ _ Hl Hi) as [r [Hr Hone]].
    rewrite (Rs_leaf s k l k) by (apply leaf_of_lookup; exact Hl).
    unfold corr_get. unfold lookup in Hr. rewrite Hr.
    cbn [eqb RNum] in Hone. unfold Reqb in Hone. destruct (Req_EM_T r (one RNum)); [|discriminate].
    subst r. reflexivity.
  Qed.

  Lemma obj_well_placed o : obj_wf RNum s o -> well_placed s (dep_leaf s) o.
  Proof.
    intros W. destruct (obj_hyps s HI o W) as [Ex [_ Su]].
    split; [exact Ex|]. split; [exact Su|].
    destruct W as [_ [_ [_ [_ [Kd _]]]]]. intros k Hk. exact (Kd k Hk).
  Qed.
End Reach.

Theorem reachable_cauchy_schwarz ctx p i j a ca b cb c va vb :
  let s := fst (run RNum (init RNum ctx) p) in
  psd_on s (dep_leaf s) ->
  nth_error (s_slots s) i = Some (SReal a ca) -> nth_error (s_slots s) j = Some (SReal b cb) ->
  std_covariance_real RNum s a b = Ok c ->
  std_variance_real RNum s a = Ok va -> std_variance_real RNum s b = Ok vb ->
  0 <= va /\ 0 <= vb /\ c * c <= va * vb.
Proof.
  intros s Hpsd Ha Hb. pose proof (reachable_Inv RNum R_eqb_one ctx p) as HI. fold s in HI.
  apply (covariance_cauchy_schwarz s (dep_leaf s) Hpsd (dep_sym s HI) (dep_diag s HI)).
  - apply obj_well_placed; [exact HI | exact (proj2 HI _ _ _ Ha)].
  - apply obj_well_placed; [exact HI | exact (proj2 HI _ _ _ Hb)].
Qed.

Theorem reachable_correlation_bounded ctx p i j a ca b cb r :
  let s := fst (run RNum (init RNum ctx) p) in
  psd_on s (dep_leaf s) ->
  nth_error (s_slots s) i = Some (SReal a ca) -> nth_error (s_slots s) j = Some (SReal b cb) ->
  ((forall k, unode a <> LeafRef k) \/ (forall k, unode b <> LeafRef k)) ->
  get_correlation_real RNum s a b = Ok r -> -1 <= r <= 1.
Proof.
  intros s Hpsd Ha Hb. pose proof (reachable_Inv RNum R_eqb_one ctx p) as HI. fold s in HI.
  apply (correlation_bounded s (dep_leaf s) Hpsd (dep_sym s HI) (dep_diag s HI)).
  - apply obj_well_placed; [exact HI | exact (proj2 HI _ _ _ Ha)].
  - apply obj_well_placed; [exact HI | exact (proj2 HI _ _ _ Hb)].
Qed.

Theorem reachable_declared_bounded ctx p k1 k2 :
  let s := fst (run RNum (init RNum ctx) p) in
  psd_on s (dep_leaf s) -> dep_leaf s k1 -> dep_leaf s k2 -> -1 <= Rs s k1 k2 <= 1.
Proof.
  intros s Hpsd. pose proof (reachable_Inv RNum R_eqb_one ctx p) as HI. fold s in HI.
  apply (declared_coefficient_bounded s (dep_leaf s) Hpsd (dep_sym s HI) (dep_diag s HI)).
Qed.

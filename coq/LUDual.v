(* LUDual.v -- GTC's uncertain-real arithmetic, as modelled by Kernel.apply_bin over the reals
   with the operator bodies regenerated from GTC/lib.py, IS dual-number arithmetic: the map
   toD (value, independent-component vector) -> D R key is a homomorphism for the four
   operations LU.py and numpy's dot apply to uncertain elements: times, minus, divide, plus.  (The dependent and
   intermediate component vectors are built by the same merges.)  This is what lets the ring
   theorems of LUFacts.v, instantiated at D (DualRing.v), speak about every component of
   uncertainty of the elements the implementation computes. *)
From Coq Require Import Reals ZArith List Bool Lra FunctionalExtensionality.
From GTCV Require Import Num RNum Vector VectorFacts Opres KTypes Kernel LU LUInst DualRing.
Import ListNotations.
Local Open Scope R_scope.

Definition toD (o : KTypes.ureal R) : D R key := (ux o, fun k => get0 (N := RNum) (uc o) k).

Definition Rinv' (x : R) : R := / x.
Notation Dmul := (dmul R key Rplus Rmult).
Notation Dsub := (dsub R key Rminus).
Notation Dadd := (dadd R key Rplus).
Notation Dinv := (dinv R key Rmult Ropp Rinv').

Lemma D_ext (x y : D R key) : fst x = fst y -> (forall k, snd x k = snd y k) -> x = y.
Proof.
  destruct x as [a f], y as [b g]; simpl. intros -> H. f_equal.
  apply functional_extensionality. exact H.
Qed.

Theorem un_mul_hom (a b : KTypes.ureal R) :
  sorted (N := RNum) (uc a) -> sorted (N := RNum) (uc b) ->
  exists o, bin RNum B_mul (@EU RNum a) (@EU RNum b) = Ok (@EU RNum o) /\
            toD o = Dmul (toD a) (toD b) /\ sorted (N := RNum) (uc o).
Proof.
  intros Sa Sb. eexists. split; [reflexivity|]. split.
  - apply D_ext; simpl; [reflexivity|]. intros k.
    rewrite (get0_merge_w (uc a) (uc b) (ux b) (ux a) k Sa Sb). ring.
  - simpl. now apply sorted_merge_w.
Qed.

Theorem un_sub_hom (a b : KTypes.ureal R) :
  sorted (N := RNum) (uc a) -> sorted (N := RNum) (uc b) ->
  exists o, bin RNum B_sub (@EU RNum a) (@EU RNum b) = Ok (@EU RNum o) /\
            toD o = Dsub (toD a) (toD b) /\ sorted (N := RNum) (uc o).
Proof.
  intros Sa Sb. eexists. split; [reflexivity|]. split.
  - apply D_ext; simpl; [reflexivity|]. intros k.
    rewrite (get0_merge_w (uc a) (uc b) _ _ k Sa Sb). simpl. lra.
  - simpl. now apply sorted_merge_w.
Qed.

Theorem un_add_hom (a b : KTypes.ureal R) :
  sorted (N := RNum) (uc a) -> sorted (N := RNum) (uc b) ->
  exists o, bin RNum B_add (@EU RNum a) (@EU RNum b) = Ok (@EU RNum o) /\
            toD o = Dadd (toD a) (toD b) /\ sorted (N := RNum) (uc o).
Proof.
  intros Sa Sb. eexists. split; [reflexivity|]. split.
  - apply D_ext; simpl; [reflexivity|]. intros k.
    now rewrite (get0_merge (uc a) (uc b) k Sa Sb).
  - simpl. now apply sorted_merge.
Qed.

(* division: defined exactly when the value of the divisor is not zero, and then it is the
   product with the dual-number inverse *)
Theorem un_div_hom (a b : KTypes.ureal R) :
  sorted (N := RNum) (uc a) -> sorted (N := RNum) (uc b) -> ux b <> 0 ->
  exists o, bin RNum B_div (@EU RNum a) (@EU RNum b) = Ok (@EU RNum o) /\
            toD o = Dmul (toD a) (Dinv (toD b)) /\ sorted (N := RNum) (uc o).
Proof.
  intros Sa Sb Hb.
  assert (E : forall x, R_div x (ux b) = Ok (x / ux b)).
  { intros x. unfold R_div. destruct (Req_EM_T (ux b) 0); [contradiction|reflexivity]. }
  eexists. split.
  - unfold bin, apply_bin, g_bin_uu, Gen_lib_real.g_div_un. cbn [div RNum bind].
    repeat (rewrite E; cbn [bind]). reflexivity.
  - split.
    + apply D_ext; simpl; [unfold Rdiv; reflexivity|]. intros k.
      rewrite (get0_merge_w (uc a) (uc b) _ _ k Sa Sb). unfold Rinv'. simpl. field. exact Hb.
    + simpl. now apply sorted_merge_w.
Qed.

Theorem un_div_zero (a b : KTypes.ureal R) :
  ux b = 0 -> bin RNum B_div (@EU RNum a) (@EU RNum b) = Err ZeroDivisionError.
Proof.
  intros Hb.
  assert (E : forall x, R_div x (ux b) = Err ZeroDivisionError).
  { intros x. unfold R_div. destruct (Req_EM_T (ux b) 0); [reflexivity|contradiction]. }
  unfold bin, apply_bin, g_bin_uu, Gen_lib_real.g_div_un. cbn [div RNum bind].
  rewrite E. reflexivity.
Qed.

(* Swap.v -- the operators treat the three component vectors of an uncertain number alike.
   [swap] moves the intermediate vector into the place of the independent vector; every
   operator application commutes with it (for every number instance).  This transports the
   chain-rule theorem, proved for the independent/dependent vectors, to the intermediate
   vector (C06: sensitivity with respect to a declared intermediate result). *)
From Coq Require Import ZArith List Bool.
From GTCV Require Import Num Vector Opres KTypes Kernel.
From GTCV.gen Require Import Gen_lib_real.
Import ListNotations.

Section Swap.
  Variable N : Num.
  Notation V := (T N).
  Notation ureal := (KTypes.ureal V).
  Notation state := (KTypes.state V).

  Definition swap (o : ureal) : ureal := mkU (ux o) (ic o) [] (uc o) (unode o).

  Definition swap_slot (sl : KTypes.slot V) : KTypes.slot V :=
    match sl with SReal o c => SReal (swap o) c | other => other end.

  Definition swap_state (s : state) : state :=
    mkS (s_ctx s) (s_ne s) (s_ni s) (s_leaves s) (s_nodes s) (s_ens s) (map swap_slot (s_slots s)).

  Definition swap_opval (v : opval V) : opval V :=
    match v with VObj o => VObj (swap o) | other => other end.

  Definition swap_opd (o : operand N) : operand N :=
    match o with OpdU a => OpdU (swap a) | OpdN v => OpdN v end.

  Definition rmap' {A B} (f : A -> B) (r : res A) : res B :=
    match r with Ok a => Ok (f a) | Err e => Err e end.

  Lemma mloop_nil_nil f1 f2 f12 : mloop (N:=N) f1 f2 f12 [] [] = [].
  Proof. reflexivity. Qed.

  (* realize commutes with swap, up to the (empty) dependent vector *)
  Lemma realize_swap (r : opres V) (a b : ureal) :
    rmap' swap_opval (realize N r a b) = realize N r (swap a) (swap b).
  Proof.
    destruct r as [w|y|y|w y wt|y w1 w2|y|w y|w| | ]; simpl; try reflexivity;
      try (destruct w; reflexivity);
      try (destruct (g_mul_un N (ux a) (ux a)) as [[]|]; reflexivity).
  Qed.

  Lemma apply_un_swap f (a : ureal) :
    rmap' swap_opval (apply_un N f a) = apply_un N f (swap a).
  Proof.
    unfold apply_un. cbn [swap ux]. destruct (g_unop N f (ux a)) as [r|e]; cbn [bind rmap']; auto.
    apply realize_swap.
  Qed.

  Lemma apply_bin_swap f (a b : operand N) :
    rmap' swap_opval (apply_bin N f a b) = apply_bin N f (swap_opd a) (swap_opd b).
  Proof.
    destruct a as [oa|va], b as [ob|vb]; cbn [apply_bin swap_opd swap ux].
    - destruct (g_bin_uu N f (ux oa) (ux ob)) as [r|e]; cbn [bind rmap']; auto. apply realize_swap.
    - destruct (g_bin_un N f (ux oa) vb) as [r|e]; cbn [bind rmap']; auto. apply (realize_swap r oa oa).
    - destruct (g_bin_nu N f va (ux ob)) as [r|e]; cbn [bind rmap']; auto. apply (realize_swap r ob ob).
    - reflexivity.
  Qed.

  Lemma of_opval_swap v (a b : ureal) :
    rmap' swap_opd (of_opval N v a b) = of_opval N (swap_opval v) (swap a) (swap b).
  Proof. destruct v as [o|[]|x|]; reflexivity. Qed.

  (* slot resolution only looks at aliases *)
  Lemma resolve_aux_swap fuel : forall (sl : list (KTypes.slot V)) i,
    resolve_aux N fuel (map swap_slot sl) i = resolve_aux N fuel sl i.
  Proof.
    induction fuel as [|f IH]; intros sl i; simpl; auto.
    rewrite nth_error_map. destruct (nth_error sl i) as [[o c|v|d|j|]|]; simpl; auto.
  Qed.

  Lemma get_real_swap (s : state) i :
    get_real N (swap_state s) i =
    rmap' (fun joc => (fst (fst joc), swap (snd (fst joc)), snd joc)) (get_real N s i).
  Proof.
    unfold get_real, resolve, swap_state. cbn [s_slots]. rewrite map_length, resolve_aux_swap, nth_error_map.
    destruct (nth_error (s_slots s) (resolve_aux N (length (s_slots s)) (s_slots s) i)) as [[o c|v|d|j|]|]; reflexivity.
  Qed.

  Theorem eval_un_swap (s : state) : forall e,
    eval_un N (swap_state s) e = rmap' swap_opd (eval_un N s e).
  Proof.
    induction e as [i|v|f e1 IH1|f e1 IH1 e2 IH2]; cbn [eval_un].
    - rewrite get_real_swap. destruct (get_real N s i) as [[[j o] c]|e]; reflexivity.
    - reflexivity.
    - rewrite IH1. destruct (eval_un N s e1) as [[oa|va]|e]; cbn [rmap' bind swap_opd]; auto.
      rewrite <- apply_un_swap. destruct (apply_un N f oa) as [v|e]; cbn [rmap' bind]; auto.
      symmetry. apply of_opval_swap.
    - rewrite IH1, IH2.
      destruct (eval_un N s e1) as [a|e]; cbn [rmap' bind]; auto.
      destruct (eval_un N s e2) as [b|e]; cbn [rmap' bind]; auto.
      rewrite <- apply_bin_swap. destruct (apply_bin N f a b) as [v|e]; cbn [rmap' bind]; auto.
      destruct a as [oa|va], b as [ob|vb]; cbn [swap_opd]; try reflexivity; symmetry; apply of_opval_swap.
  Qed.
End Swap.

(* WSGroups.v -- C05: the Welch-Satterthwaite loop over the DEPENDENT components with
   ensembles (real results, no complex pairs).  The loop of lib.py keeps one accumulator per
   ensemble (cpts_map, keyed by the ensemble's content) and adds to it the squared component of
   each member and the covariance term of each correlated pair of members; dependent inputs
   without ensemble are terms of their own; correlations between infinite-dof inputs only
   enter the total variance.  This file proves that description for vectors of ANY length and
   any interleaving of members, and that no internal error (the assert False path) is reached
   when every declared correlation joins either two infinite-dof inputs or two members of one
   ensemble -- which is what set_correlation enforces. *)
From Coq Require Import ZArith List Bool Reals Lia Lra Psatz.
From GTCV Require Import Num RNum Vector VectorFacts Opres KTypes Kernel LPU WS.
Import ListNotations.
Local Open Scope R_scope.

Notation ureal := (KTypes.ureal R).
Notation state := (KTypes.state R).
Notation rvecs := (list (key * R)).
Notation dfv := (KTypes.dfval R).
Notation cmapR := (list (list key * (R * dfv))).
Notation wsaccR := (Kernel.wsacc RNum).

Lemma key_eq_dec (a b : key) : {a = b} + {a <> b}.
Proof. decide equality; apply Z.eq_dec. Qed.

(* one increment of an ensemble accumulator: ensemble content, dof of the leaf that adds it, amount *)
Definition inc := (list key * dfv * R)%type.

Definition add_inc (m : cmapR) (x : inc) : cmapR :=
  let '(E, d, v) := x in
  if cmap_mem RNum m E then cmap_add RNum m E v else m ++ [(E, (0 + v, d))].

Section Groups.
  Variable s : state.

  Definition leaf_ens (k : key) : list key :=
    match leaf_of RNum s k with Ok l => ens_of RNum s l | Err _ => [] end.
  Definition leaf_corr (k k' : key) : option R :=
    match leaf_of RNum s k with Ok l => Kernel.assoc (l_corr l) k' | Err _ => None end.
  Definition both_inf (k k' : key) : bool :=
    df_is_inf RNum (leaf_df s k) && df_is_inf RNum (leaf_df s k').

  (* the hypotheses on a dependent vector d (a suffix-closed predicate) *)
  Fixpoint ws_ok (d : rvecs) : Prop :=
    match d with
    | [] => True
    | (k_i, _) :: rest =>
        (exists l, leaf_of RNum s k_i = Ok l /\ l_cplx l = None) /\
        (forall k_j u_j r, In (k_j, u_j) rest -> leaf_corr k_i k_j = Some r ->
                           (exists l, leaf_of RNum s k_j = Ok l) /\
                           (both_inf k_i k_j = true \/ kmem k_j (leaf_ens k_i) = true)) /\
        ws_ok rest
    end.

  (* covariance terms of element i with the later elements *)
  Definition covar (k_i : key) (u_i : R) (kj : key * R) : R :=
    match leaf_corr k_i (fst kj) with Some r => 2 * u_i * r * snd kj | None => 0 end.

  Definition inner_incs (k_i : key) (u_i : R) (rest : rvecs) : list inc :=
    flat_map (fun kj =>
                match leaf_corr k_i (fst kj) with
                | Some r => if both_inf k_i (fst kj) then []
                            else [(leaf_ens k_i, leaf_df s k_i, 2 * u_i * r * snd kj)]
                | None => []
                end) rest.

  (* ---------- the accumulator map ---------- *)
  Lemma cmap_add_notin (m : cmapR) E x : cmap_mem RNum m E = false -> cmap_add RNum m E x = m.
  Proof.
    induction m as [|[E' [v d]] m IH]; simpl; auto.
    destruct (klist_eqb E E'); simpl; [discriminate|]. intros H. rewrite IH; auto.
  Qed.

  Lemma cmap_mem_app (m m' : cmapR) E : cmap_mem RNum (m ++ m') E = cmap_mem RNum m E || cmap_mem RNum m' E.
  Proof. induction m as [|[E' p] m IH]; simpl; auto. rewrite IH. destruct (klist_eqb E E'); auto. Qed.

  Lemma klist_eqb_refl E : klist_eqb E E = true.
  Proof. induction E as [|k E IH]; simpl; auto. rewrite keqb_refl, IH. reflexivity. Qed.

  Lemma cmap_add_app_new (m : cmapR) E z d x :
    cmap_mem RNum m E = false -> cmap_add RNum (m ++ [(E, (z, d))]) E x = m ++ [(E, (z + x, d))].
  Proof.
    induction m as [|[E' [v d']] m IH]; simpl.
    - rewrite klist_eqb_refl. reflexivity.
    - destruct (klist_eqb E E'); simpl; [discriminate|]. intros H. rewrite IH; auto.
  Qed.

  Lemma cmap_mem_add (m : cmapR) E E' x : cmap_mem RNum (cmap_add RNum m E x) E' = cmap_mem RNum m E'.
  Proof.
    induction m as [|[E0 [v d]] m IH]; simpl; auto.
    destruct (klist_eqb E E0); simpl; rewrite ?IH; reflexivity.
  Qed.

  Lemma cmap_mem_add_inc (m : cmapR) x E' :
    cmap_mem RNum m E' = true -> cmap_mem RNum (add_inc m x) E' = true.
  Proof.
    destruct x as [[E d] v]. unfold add_inc. intros H.
    destruct (cmap_mem RNum m E); [rewrite cmap_mem_add; auto | rewrite cmap_mem_app, H; auto].
  Qed.

  Lemma cmap_mem_add_inc_self (m : cmapR) E d v : cmap_mem RNum (add_inc m (E, d, v)) E = true.
  Proof.
    unfold add_inc. destruct (cmap_mem RNum m E) eqn:Em.
    - rewrite cmap_mem_add. exact Em.
    - rewrite cmap_mem_app, Em. simpl. rewrite klist_eqb_refl. reflexivity.
  Qed.

  Lemma cmap_mem_fold (l : list inc) : forall (m : cmapR) E',
    cmap_mem RNum m E' = true -> cmap_mem RNum (fold_left add_inc l m) E' = true.
  Proof. induction l as [|x l IH]; simpl; auto. intros m E' H. apply IH. apply cmap_mem_add_inc; auto. Qed.

  (* ---------- the inner loop ---------- *)
  Lemma ws_inner_spec k_i l_i u_i rest : forall (a : wsaccR),
    leaf_of RNum s k_i = Ok l_i -> l_cplx l_i = None ->
    (forall k_j u_j r, In (k_j, u_j) rest -> leaf_corr k_i k_j = Some r ->
                       (exists l, leaf_of RNum s k_j = Ok l) /\
                       (both_inf k_i k_j = true \/ kmem k_j (leaf_ens k_i) = true)) ->
    (leaf_ens k_i <> [] -> cmap_mem RNum (w_map RNum a) (leaf_ens k_i) = true) ->
    ws_inner RNum s k_i l_i u_i (leaf_ens k_i) rest a =
    Ok (mkW RNum (w_var RNum a + fold_right Rplus 0 (map (covar k_i u_i) rest))
            (w_lst RNum a)
            (fold_left add_inc (inner_incs k_i u_i rest) (w_map RNum a))
            (w_fin RNum a)).
  Proof.
    induction rest as [|[k_j u_j] rest IH]; intros a Hl Hc Hok Hmem.
    - simpl. destruct a; simpl. f_equal. f_equal. rring.
    - cbn [ws_inner].
      assert (Hcorr : leaf_corr k_i k_j = Kernel.assoc (l_corr l_i) k_j) by (unfold leaf_corr; rewrite Hl; reflexivity).
      assert (Hok' : forall k u r, In (k, u) rest -> leaf_corr k_i k = Some r ->
                       (exists l, leaf_of RNum s k = Ok l) /\ (both_inf k_i k = true \/ kmem k (leaf_ens k_i) = true))
        by (intros; eapply Hok; eauto; right; eauto).
      destruct (Kernel.assoc (l_corr l_i) k_j) as [r|] eqn:Er.
      + destruct (Hok k_j u_j r (or_introl eq_refl) Hcorr) as [[l_j Hlj] Hcase].
        rewrite Hlj. cbn [bind].
        assert (Hbi : both_inf k_i k_j = df_is_inf RNum (l_df l_i) && df_is_inf RNum (l_df l_j)).
        { unfold both_inf, leaf_df. rewrite Hl, Hlj. reflexivity. }
        rewrite <- Hbi.
        cbn [map fold_right inner_incs flat_map fst snd]. unfold covar at 1. cbn [fst snd]. rewrite Hcorr.
        destruct (both_inf k_i k_j) eqn:Eb.
        * (* both infinite: only the total variance *)
          rewrite IH; auto. cbn [w_var w_lst w_map w_fin app]. f_equal. f_equal.
          cbn [mul add two of_Z RNum]. unfold two; cbn [of_Z RNum]. rring.
        * destruct Hcase as [Hcase|Hcase]; [discriminate|]. rewrite Hcase.
          assert (Hne : leaf_ens k_i <> []) by (intros E0; rewrite E0 in Hcase; discriminate).
          rewrite (Hmem Hne).
          rewrite IH; auto.
          -- cbn [w_var w_lst w_map w_fin app fold_left].
             assert (Em : add_inc (w_map RNum a) (leaf_ens k_i, leaf_df s k_i, 2 * u_i * r * u_j)
                          = cmap_add RNum (w_map RNum a) (leaf_ens k_i) (mul RNum (mul RNum (mul RNum (two RNum) u_i) r) u_j)).
             { unfold add_inc. rewrite (Hmem Hne). reflexivity. }
             fold (inner_incs k_i u_i rest). rewrite Em.
             f_equal. f_equal.
             cbn [mul add two of_Z RNum]. unfold two; cbn [of_Z RNum]. rring.
          -- cbn [w_map]. intros _. rewrite cmap_mem_add. apply Hmem; auto.
      + cbn [map fold_right inner_incs flat_map fst snd]. unfold covar at 1. cbn [fst]. rewrite Hcorr.
        rewrite IH; auto. cbn [app]. f_equal. f_equal. rring.
  Qed.

  (* ---------- one element, then the whole dependent vector ---------- *)
  Definition vi (u : R) : R := u * u.

  (* what the loop does to (cpts_lst, cpts_map), as a plain list function *)
  Fixpoint groups_run (d : rvecs) (st : list (R * dfv) * cmapR) : list (R * dfv) * cmapR :=
    match d with
    | [] => st
    | (k, u) :: rest =>
        let E := leaf_ens k in let df := leaf_df s k in
        match rest with
        | [] => if cmap_mem RNum (snd st) E then (fst st, add_inc (snd st) (E, df, vi u))
                else ((vi u, df) :: fst st, snd st)
        | _ :: _ =>
            match E with
            | [] => groups_run rest ((vi u, df) :: fst st, fold_left add_inc (inner_incs k u rest) (snd st))
            | _ :: _ => groups_run rest (fst st, fold_left add_inc ((E, df, vi u) :: inner_incs k u rest) (snd st))
            end
        end
    end.

  Fixpoint vtot (d : rvecs) : R :=
    match d with
    | [] => 0
    | (k, u) :: rest => vi u + fold_right Rplus 0 (map (covar k u) rest) + vtot rest
    end.

  Definition no_nil_key (m : cmapR) : Prop := cmap_mem RNum m [] = false.

  Lemma no_nil_add_inc m x : no_nil_key m -> fst (fst x) <> [] -> no_nil_key (add_inc m x).
  Proof.
    destruct x as [[E d] v]. unfold no_nil_key, add_inc. cbn [fst]. intros H HE.
    destruct (cmap_mem RNum m E).
    - rewrite cmap_mem_add. exact H.
    - rewrite cmap_mem_app, H. simpl. destruct E; [contradiction|reflexivity].
  Qed.

  Lemma no_nil_fold l : forall m, no_nil_key m -> (forall x, In x l -> fst (fst x) <> []) -> no_nil_key (fold_left add_inc l m).
  Proof.
    induction l as [|x l IH]; simpl; auto. intros m H Hl. apply IH.
    - apply no_nil_add_inc; auto.
    - intros; apply Hl; auto.
  Qed.

  Lemma inner_incs_key k u rest x : In x (inner_incs k u rest) -> fst (fst x) = leaf_ens k.
  Proof.
    unfold inner_incs. intros H. apply in_flat_map in H. destruct H as [kj [_ H]].
    destruct (leaf_corr k (fst kj)); [|destruct H]. destruct (both_inf k (fst kj)); [destruct H|].
    destruct H as [<-|[]]. reflexivity.
  Qed.

  (* with an empty ensemble every correlated later element is an infinite-dof pair: no increments *)
  Lemma inner_incs_nil k u rest :
    leaf_ens k = [] ->
    (forall k_j u_j r, In (k_j, u_j) rest -> leaf_corr k k_j = Some r ->
                       (exists l, leaf_of RNum s k_j = Ok l) /\
                       (both_inf k k_j = true \/ kmem k_j (leaf_ens k) = true)) ->
    inner_incs k u rest = [].
  Proof.
    intros HE Hok. unfold inner_incs. induction rest as [|[k_j u_j] rest IH]; simpl; auto.
    rewrite IH by (intros; eapply Hok; eauto; right; eauto).
    destruct (leaf_corr k k_j) as [r|] eqn:Ec; auto.
    destruct (Hok k_j u_j r (or_introl eq_refl) Ec) as [_ [Hb|Hm]].
    - rewrite Hb. reflexivity.
    - rewrite HE in Hm. discriminate.
  Qed.

  (* ---------- one element ---------- *)
  Lemma ws_elem_last k u (a : wsaccR) l :
    leaf_of RNum s k = Ok l -> w_fin RNum a = false ->
    ws_elem RNum s k u [] a =
    Ok (if cmap_mem RNum (w_map RNum a) (leaf_ens k)
        then mkW RNum (w_var RNum a + vi u) (w_lst RNum a) (add_inc (w_map RNum a) (leaf_ens k, leaf_df s k, vi u)) false
        else mkW RNum (w_var RNum a + vi u) ((vi u, leaf_df s k) :: w_lst RNum a) (w_map RNum a) false).
  Proof.
    intros Hl Hfin. unfold ws_elem. rewrite Hl. cbn [bind].
    assert (HE : ens_of RNum s l = leaf_ens k) by (unfold leaf_ens; rewrite Hl; reflexivity).
    assert (Hdf : l_df l = leaf_df s k) by (unfold leaf_df; rewrite Hl; reflexivity).
    rewrite HE, Hdf, Hfin. unfold add_inc.
    destruct (cmap_mem RNum (w_map RNum a) (leaf_ens k)); reflexivity.
  Qed.

  Lemma ws_elem_more k u k2 u2 rest2 (a : wsaccR) l :
    leaf_of RNum s k = Ok l -> l_cplx l = None -> w_fin RNum a = false -> no_nil_key (w_map RNum a) ->
    ws_elem RNum s k u ((k2, u2) :: rest2) a =
    ws_inner RNum s k l u (leaf_ens k) ((k2, u2) :: rest2)
      (match leaf_ens k with
       | [] => mkW RNum (w_var RNum a + vi u) ((vi u, leaf_df s k) :: w_lst RNum a) (w_map RNum a) false
       | _ :: _ => mkW RNum (w_var RNum a + vi u) (w_lst RNum a)
                       (add_inc (w_map RNum a) (leaf_ens k, leaf_df s k, vi u)) false
       end).
  Proof.
    intros Hl Hc Hfin Hnn. unfold ws_elem. rewrite Hl. cbn [bind].
    assert (HE : ens_of RNum s l = leaf_ens k) by (unfold leaf_ens; rewrite Hl; reflexivity).
    assert (Hdf : l_df l = leaf_df s k) by (unfold leaf_df; rewrite Hl; reflexivity).
    rewrite HE, Hdf, Hfin, Hc. cbn [pair_eqb].
    destruct (leaf_ens k) as [|e0 E0] eqn:EE.
    - unfold no_nil_key in Hnn. rewrite Hnn. cbn [bind]. reflexivity.
    - unfold add_inc.
      destruct (cmap_mem RNum (w_map RNum a) (e0 :: E0)) eqn:Em.
      + rewrite Em. cbn [bind]. reflexivity.
      + rewrite cmap_mem_app, Em. cbn [cmap_mem orb]. rewrite klist_eqb_refl. cbn [orb bind].
        rewrite cmap_add_app_new by exact Em. unfold zero, vi; cbn [of_Z RNum mul add]. reflexivity.
  Qed.

  Lemma ws_dep_spec (d : rvecs) : forall (a : wsaccR),
    ws_ok d -> w_fin RNum a = false -> no_nil_key (w_map RNum a) ->
    ws_dep RNum s d a =
    Ok (mkW RNum (w_var RNum a + vtot d)
            (fst (groups_run d (w_lst RNum a, w_map RNum a)))
            (snd (groups_run d (w_lst RNum a, w_map RNum a))) false) /\
    no_nil_key (snd (groups_run d (w_lst RNum a, w_map RNum a))).
  Proof.
    induction d as [|[k u] rest IH]; intros a Hok Hfin Hnn.
    - split; [|exact Hnn]. cbn [ws_dep groups_run vtot fst snd]. destruct a; cbn in *. subst. f_equal. f_equal. rring.
    - destruct Hok as [[l [Hl Hc]] [Hpairs Hrest]].
      cbn [ws_dep].
      destruct rest as [|[k2 u2] rest2].
      + (* last element *)
        pose proof (ws_elem_last k u a l Hl Hfin) as He. cbn [T RNum] in He |- *. rewrite He. clear He.
        cbn [bind ws_dep groups_run vtot map fold_right fst snd].
        destruct (cmap_mem RNum (w_map RNum a) (leaf_ens k)) eqn:Em; cbn [fst snd].
        * split; [f_equal; f_equal; rring|].
          unfold add_inc. rewrite Em. unfold no_nil_key. rewrite cmap_mem_add. exact Hnn.
        * split; [f_equal; f_equal; rring|exact Hnn].
      + (* an element with successors *)
        pose proof (ws_elem_more k u k2 u2 rest2 a l Hl Hc Hfin Hnn) as He. cbn [T RNum] in He |- *. rewrite He. clear He.
        assert (Hgr : groups_run ((k, u) :: (k2, u2) :: rest2) (w_lst RNum a, w_map RNum a) =
                      match leaf_ens k with
                      | [] => groups_run ((k2, u2) :: rest2)
                                ((vi u, leaf_df s k) :: w_lst RNum a,
                                 fold_left add_inc (inner_incs k u ((k2, u2) :: rest2)) (w_map RNum a))
                      | _ :: _ => groups_run ((k2, u2) :: rest2)
                                (w_lst RNum a,
                                 fold_left add_inc ((leaf_ens k, leaf_df s k, vi u) :: inner_incs k u ((k2, u2) :: rest2)) (w_map RNum a))
                      end) by reflexivity.
        rewrite Hgr. clear Hgr.
        assert (Hvt : vtot ((k, u) :: (k2, u2) :: rest2) =
                      vi u + fold_right Rplus 0 (map (covar k u) ((k2, u2) :: rest2)) + vtot ((k2, u2) :: rest2)) by reflexivity.
        rewrite Hvt. clear Hvt.
        set (rest := (k2, u2) :: rest2) in *.
        destruct (list_eq_dec (fun a b => match key_eq_dec a b with left e => left e | right n => right n end) (leaf_ens k) []) as [EE|EE].
        * (* no ensemble *)
          rewrite (ws_inner_spec k l u rest _ Hl Hc Hpairs) by (intros Hne; contradiction).
          rewrite (inner_incs_nil k u rest EE Hpairs).
          rewrite EE. cbn [bind w_var w_lst w_map w_fin fold_left].
          destruct (IH (mkW RNum (w_var RNum a + vi u + fold_right Rplus 0 (map (covar k u) rest))
                            ((vi u, leaf_df s k) :: w_lst RNum a) (w_map RNum a) false) Hrest eq_refl Hnn) as [IH1 IH2].
          cbn [w_var w_lst w_map] in IH1, IH2.
          split; [|exact IH2].
          etransitivity; [exact IH1|]. f_equal. f_equal. rring.
        * (* member of an ensemble *)
          assert (Hmem : cmap_mem RNum (add_inc (w_map RNum a) (leaf_ens k, leaf_df s k, vi u)) (leaf_ens k) = true)
            by apply cmap_mem_add_inc_self.
          assert (Hnn2 : no_nil_key (fold_left add_inc (inner_incs k u rest) (add_inc (w_map RNum a) (leaf_ens k, leaf_df s k, vi u)))).
          { apply no_nil_fold.
            - apply no_nil_add_inc; auto.
            - intros x Hx. rewrite (inner_incs_key _ _ _ _ Hx). exact EE. }
          destruct (leaf_ens k) as [|e0 E0] eqn:EEq; [contradiction|]. rewrite <- EEq in *.
          rewrite (ws_inner_spec k l u rest _ Hl Hc Hpairs) by (cbn [w_map]; intros _; exact Hmem).
          cbn [bind w_var w_lst w_map w_fin].
          destruct (IH (mkW RNum (w_var RNum a + vi u + fold_right Rplus 0 (map (covar k u) rest))
                            (w_lst RNum a)
                            (fold_left add_inc (inner_incs k u rest) (add_inc (w_map RNum a) (leaf_ens k, leaf_df s k, vi u))) false)
                       Hrest eq_refl Hnn2) as [IH1 IH2].
          cbn [w_var w_lst w_map fold_left] in IH1, IH2 |- *.
          split; [|exact IH2].
          etransitivity; [exact IH1|]. f_equal. f_equal. rring.
  Qed.
End Groups.

(* ---------- the dof of a real result with dependent (ensemble) inputs ---------- *)
Definition sum_terms (var : R) (l : list (R * dfv)) : R :=
  fold_right (fun vd acc => ws_term var (fst vd) (snd vd) + acc) 0 l.

Lemma sum_terms_app var l1 l2 : sum_terms var (l1 ++ l2) = sum_terms var l1 + sum_terms var l2.
Proof. unfold sum_terms. induction l1 as [|x l1 IH]; simpl; [ring|]. rewrite IH. ring. Qed.

Lemma sum_terms_rev var l : sum_terms var (rev l) = sum_terms var l.
Proof.
  induction l as [|x l IH]; simpl; auto. rewrite sum_terms_app, IH. unfold sum_terms; simpl. ring.
Qed.

Definition nu_ok (d : dfv) : Prop := match d with DFin nu => nu <> 0 | DNaN => False | DInf => True end.

Definition nus_ok (st : list (R * dfv) * cmapR) : Prop :=
  (forall v d, In (v, d) (fst st) -> nu_ok d) /\ (forall E v d, In (E, (v, d)) (snd st) -> nu_ok d).

Lemma cmap_add_in (m : cmapR) E x E' v d :
  In (E', (v, d)) (cmap_add RNum m E x) -> exists v', In (E', (v', d)) m.
Proof.
  induction m as [|[E0 [v0 d0]] m IH]; simpl; [tauto|].
  destruct (klist_eqb E E0); simpl.
  - intros [H|H]; [injection H as <- <- <-; eexists; left; reflexivity | eexists; right; exact H].
  - intros [H|H]; [injection H as <- <- <-; eexists; left; reflexivity|].
    destruct (IH H) as [v' Hv']. exists v'; right; exact Hv'.
Qed.

Lemma nus_ok_add_inc lst (m : cmapR) (x : inc) :
  nus_ok (lst, m) -> nu_ok (snd (fst x)) -> nus_ok (lst, add_inc m x).
Proof.
  destruct x as [[E d] v]. intros [H1 H2] Hd. split; [exact H1|]. cbn [snd fst] in *. unfold add_inc.
  intros E' v' d' Hin. destruct (cmap_mem RNum m E).
  - destruct (cmap_add_in _ _ _ _ _ _ Hin) as [v'' Hv'']. eapply H2; eauto.
  - apply in_app_or in Hin. destruct Hin as [Hin|[Hin|[]]]; [eapply H2; eauto|].
    injection Hin as _ _ <-. exact Hd.
Qed.

Lemma nus_ok_fold lst l : forall (m : cmapR),
  nus_ok (lst, m) -> (forall x, In x l -> nu_ok (snd (fst x))) -> nus_ok (lst, fold_left add_inc l m).
Proof.
  induction l as [|x l IH]; simpl; auto. intros m H Hl. apply IH.
  - apply nus_ok_add_inc; auto.
  - intros; apply Hl; auto.
Qed.

Section Final.
  Variable s : state.

  Definition dfs_ok (d : rvecs) : Prop := forall k, In k (map fst d) -> nu_ok (leaf_df s k).

  Lemma inner_incs_df k u rest x : In x (inner_incs s k u rest) -> snd (fst x) = leaf_df s k.
  Proof.
    unfold inner_incs. intros H. apply in_flat_map in H. destruct H as [kj [_ H]].
    destruct (leaf_corr s k (fst kj)); [|destruct H]. destruct (both_inf s k (fst kj)); [destruct H|].
    destruct H as [<-|[]]. reflexivity.
  Qed.

  Lemma groups_run_nus (d : rvecs) : forall st,
    dfs_ok d -> nus_ok st -> nus_ok (groups_run s d st).
  Proof.
    induction d as [|[k u] rest IH]; intros [lst m] Hd Hst; cbn [groups_run]; auto.
    assert (Hk : nu_ok (leaf_df s k)) by (apply Hd; left; reflexivity).
    assert (Hrest : dfs_ok rest) by (intros k0 H0; apply Hd; right; exact H0).
    cbn [fst snd].
    destruct rest as [|p rest2].
    - destruct (cmap_mem RNum m (leaf_ens s k)).
      + apply nus_ok_add_inc; auto.
      + destruct Hst as [H1 H2]. split; [|exact H2]. cbn [fst]. intros v d [H|H]; [injection H as _ <-; exact Hk | eapply H1; eauto].
    - destruct (leaf_ens s k) as [|e0 E0] eqn:EE.
      + apply IH; auto. cbn [fst snd].
        assert (H0 : nus_ok ((vi u, leaf_df s k) :: lst, m)).
        { destruct Hst as [H1 H2]. split; [|exact H2]. cbn [fst]. intros v d [H|H]; [injection H as _ <-; exact Hk | eapply H1; eauto]. }
        apply nus_ok_fold; auto. intros x Hx. rewrite (inner_incs_df _ _ _ _ Hx). exact Hk.
      + apply IH; auto. cbn [fst snd].
        apply (nus_ok_fold lst ((e0 :: E0, leaf_df s k, vi u) :: inner_incs s k u (p :: rest2))); auto.
        intros x [<-|Hx]; [exact Hk|]. rewrite (inner_incs_df _ _ _ _ Hx). exact Hk.
  Qed.

  Lemma ws_ok_leaves (d : rvecs) : ws_ok s d -> leaves_exist s d.
  Proof.
    induction d as [|[k u] rest IH]; intros H k0 Hin; [destruct Hin|].
    destruct H as [[l [Hl _]] [_ Hr]]. destruct Hin as [<-|Hin]; [exists l; exact Hl | apply IH; auto].
  Qed.

  Theorem ws_real_result (o : ureal) c :
    unode o = NoNode -> is_constant RNum o = false ->
    leaves_exist s (uc o) -> dfs_positive s (uc o) ->
    ws_ok s (dc o) -> dfs_ok (dc o) ->
    (exists k, (In k (map fst (uc o)) \/ In k (map fst (dc o))) /\ leaf_df s k <> DInf) ->
    let var := vsum (fun _ u => u * u) (uc o) + vtot s (dc o) in
    let st := groups_run s (dc o) (rev (map (fun ku => (snd ku * snd ku, leaf_df s (fst ku))) (uc o)), []) in
    let den := sum_terms var (fst st) + sum_terms var (map snd (snd st)) in
    welch_satterthwaite RNum s o c =
    Ok (var, (if Req_EM_T var 0 then DNaN else if Req_EM_T den 0 then DInf else DFin (1 / den)), c).
  Proof.
    intros Hn Hcst Hexu Hposu Hok Hdfd [kf [Hkf Hfin]] var st den.
    unfold welch_satterthwaite. cbn [T RNum] in *. rewrite Hn, Hcst.
    pose proof (ws_ok_leaves _ Hok) as Hexd.
    destruct (all_inf_spec s (uc o) Hexu) as [bu [Hbu Hiu]].
    destruct (all_inf_spec s (dc o) Hexd) as [bd [Hbd Hid]].
    rewrite Hbu, Hbd. cbn [bind].
    assert (Hb : bu && bd = false).
    { destruct bu eqn:E1, bd eqn:E2; auto. exfalso. apply Hfin.
      destruct Hkf as [H|H]; [apply (proj1 Hiu eq_refl) | apply (proj1 Hid eq_refl)]; exact H. }
    rewrite Hb.
    rewrite ws_indep_spec by exact Hexu. cbn [bind]. rewrite app_nil_r.
    destruct (ws_dep_spec s (dc o)
                (mkW RNum (zero RNum + vsum (fun _ u => u * u) (uc o))
                     (rev (map (fun ku => (snd ku * snd ku, leaf_df s (fst ku))) (uc o))) [] false)
                Hok eq_refl eq_refl) as [Hdep _].
    cbn [w_var w_lst w_map] in Hdep. cbn [T RNum] in Hdep |- *. rewrite Hdep. cbn [bind w_var w_lst w_map].
    fold st.
    assert (EV : zero RNum + vsum (fun _ u => u * u) (uc o) + vtot s (dc o) = var)
      by (unfold var, zero; cbn [of_Z RNum]; lra).
    rewrite !EV. cbn [eqb RNum]. unfold Reqb, zero; cbn [of_Z RNum].
    destruct (Req_EM_T var (IZR 0)) as [E0|E0]; destruct (Req_EM_T var 0) as [E0'|E0']; try (simpl in *; lra).
    - reflexivity.
    - assert (Hnus : nus_ok st).
      { unfold st. apply groups_run_nus; auto. split; cbn [fst snd]; [|intros ? ? ? []].
        intros v d Hin. apply in_rev in Hin. apply in_map_iff in Hin. destruct Hin as [[k u] [Heq Hin]].
        cbn [fst snd] in Heq. injection Heq as _ <-.
        assert (Hk : In k (map fst (uc o))) by (apply in_map_iff; exists (k, u); auto).
        specialize (Hposu k Hk). unfold nu_ok. destruct (leaf_df s k); auto. }
      rewrite ws_den_spec.
      + cbn [bind].
        assert (ED : IZR 0 + fold_right (fun vd acc => ws_term var (fst vd) (snd vd) + acc) 0
                              (rev (rev (map snd (snd st)) ++ fst st)) = den).
        { unfold den. fold (sum_terms var (rev (rev (map snd (snd st)) ++ fst st))).
          rewrite sum_terms_rev, sum_terms_app, sum_terms_rev. lra. }
        match goal with |- context [div RNum (one RNum) ?X] => replace X with den by (symmetry; exact ED) end.
        unfold one; cbn [of_Z div RNum]. unfold R_div.
        destruct (Req_EM_T den 0); [reflexivity|]. cbn [is_nan is_inf RNum]. reflexivity.
      + exact E0'.
      + intros v nu Hin. apply in_rev in Hin. apply in_app_or in Hin. destruct Hnus as [N1 N2].
        destruct Hin as [Hin|Hin].
        * apply in_rev in Hin. apply in_map_iff in Hin. destruct Hin as [[E [v' d']] [Heq Hin]].
          cbn [snd] in Heq. injection Heq as -> ->. exact (N2 _ _ _ Hin).
        * exact (N1 _ _ Hin).
  Qed.
End Final.

(* ---------- what an accumulator holds: exactly the sum of the increments of its ensemble ---------- *)
Lemma klist_eqb_eq a b : klist_eqb a b = true <-> a = b.
Proof.
  revert b; induction a as [|x a IH]; destruct b as [|y b]; simpl; split; try discriminate; auto.
  - intros H. apply andb_prop in H. destruct H as [H1 H2]. apply keqb_eq in H1. apply IH in H2. congruence.
  - intros H. injection H as -> ->. rewrite keqb_refl. apply IH. reflexivity.
Qed.

Fixpoint cmap_lookup (m : cmapR) (E : list key) : option (R * dfv) :=
  match m with
  | [] => None
  | (E', p) :: m' => if klist_eqb E E' then Some p else cmap_lookup m' E
  end.

Fixpoint total (l : list inc) (E : list key) : R :=
  match l with
  | [] => 0
  | (E', _, v) :: l' => (if klist_eqb E E' then v else 0) + total l' E
  end.

Fixpoint first_df (l : list inc) (E : list key) : option dfv :=
  match l with
  | [] => None
  | (E', d, _) :: l' => if klist_eqb E E' then Some d else first_df l' E
  end.

Lemma cmap_lookup_mem m E : cmap_mem RNum m E = match cmap_lookup m E with Some _ => true | None => false end.
Proof. induction m as [|[E' p] m IH]; simpl; auto. destruct (klist_eqb E E'); simpl; auto. Qed.

Lemma cmap_lookup_add m E x E' :
  cmap_lookup (cmap_add RNum m E x) E' =
  match cmap_lookup m E' with
  | Some (v, d) => if klist_eqb E' E then Some (v + x, d) else Some (v, d)
  | None => None
  end.
Proof.
  induction m as [|[E0 [v0 d0]] m IH]; simpl; auto.
  destruct (klist_eqb E E0) eqn:E1; simpl.
  - apply klist_eqb_eq in E1; subst E0. destruct (klist_eqb E' E) eqn:E2; auto.
    destruct (cmap_lookup m E') as [[v d]|]; auto.
  - destruct (klist_eqb E' E0) eqn:E2; simpl.
    + apply klist_eqb_eq in E2; subst E0.
      destruct (klist_eqb E' E) eqn:E3; auto. apply klist_eqb_eq in E3; subst. rewrite klist_eqb_refl in E1. discriminate.
    + apply IH.
Qed.

Lemma cmap_lookup_app_none m m' E : cmap_lookup m E = None -> cmap_lookup (m ++ m') E = cmap_lookup m' E.
Proof. induction m as [|[E0 p] m IH]; simpl; auto. destruct (klist_eqb E E0); [discriminate|auto]. Qed.

Lemma cmap_lookup_app_some m m' E p : cmap_lookup m E = Some p -> cmap_lookup (m ++ m') E = Some p.
Proof. induction m as [|[E0 q] m IH]; simpl; [discriminate|]. destruct (klist_eqb E E0); auto. Qed.

Lemma lookup_add_inc m (x : inc) E :
  cmap_lookup (add_inc m x) E =
  let '(Ex, d, v) := x in
  if klist_eqb E Ex then
    match cmap_lookup m E with Some (V, nu) => Some (V + v, nu) | None => Some (0 + v, d) end
  else cmap_lookup m E.
Proof.
  destruct x as [[Ex d] v]. unfold add_inc. rewrite cmap_lookup_mem.
  destruct (klist_eqb E Ex) eqn:Ee.
  - apply klist_eqb_eq in Ee; subst Ex.
    destruct (cmap_lookup m E) as [[V nu]|] eqn:El.
    + rewrite cmap_lookup_add, El, klist_eqb_refl. reflexivity.
    + rewrite cmap_lookup_app_none by exact El. simpl. rewrite klist_eqb_refl. reflexivity.
  - destruct (cmap_lookup m Ex) as [[V nu]|] eqn:El.
    + rewrite cmap_lookup_add. destruct (cmap_lookup m E) as [[V' nu']|]; auto. rewrite Ee. reflexivity.
    + destruct (cmap_lookup m E) as [p|] eqn:El2.
      * apply cmap_lookup_app_some; exact El2.
      * rewrite cmap_lookup_app_none by exact El2. simpl. rewrite Ee. reflexivity.
Qed.

Theorem accumulator_holds_total (l : list inc) : forall (m : cmapR) E,
  cmap_lookup (fold_left add_inc l m) E =
  match cmap_lookup m E with
  | Some (V, nu) => Some (V + total l E, nu)
  | None => match first_df l E with Some d => Some (0 + total l E, d) | None => None end
  end.
Proof.
  induction l as [|[[Ex d] v] l IH]; intros m E; cbn [fold_left total first_df].
  - destruct (cmap_lookup m E) as [[V nu]|]; auto. f_equal. f_equal. ring.
  - rewrite IH, lookup_add_inc.
    destruct (klist_eqb E Ex) eqn:Ee.
    + destruct (cmap_lookup m E) as [[V nu]|]; f_equal; f_equal; ring.
    + destruct (cmap_lookup m E) as [[V nu]|]; [f_equal; f_equal; ring|].
      destruct (first_df l E); auto. f_equal. f_equal. ring.
Qed.

(* CMatrix.v -- C04, derived uncertain complex numbers: the 2x2 matrix that variance(z) / z.v
   reports for ANY complex result (not only an elementary declaration, which CVariance.v covers)
   whose components are not declared intermediates and have not been read before is the LPU matrix
   of its two real components evaluated in the current session:
        [[ var(re), cov(re,im) ], [ cov(re,im), var(im) ]]
   with var / cov the functions std_variance_real / std_covariance_real that LPU.v proves equal to
   the double sums.  For every number instance (binary64 included): the reads that fill the
   component caches in between do not touch what the later reads depend on (frame). *)
From Coq Require Import ZArith List Bool.
From GTCV Require Import Num Vector Opres KTypes Kernel Frame CacheValid Cplx CKernel.
Import ListNotations.

Section CMatrix.
  Variable C : CNum.
  Notation N := (cN C).
  Notation V := (T N).

  Definition lpu_matrix (k : state V) (ore oim : ureal V) : res (V * V * V * V) :=
    vr <- std_variance_real N k ore ;; vi <- std_variance_real N k oim ;;
    cv <- std_covariance_real N k ore oim ;; Ok (vr, cv, cv, vi).

  Lemma frame_back (k : state V) j o c : frame N (set_cache N k j o c) k.
  Proof. apply frame_same; reflexivity. Qed.

  Lemma prop_v_unread (k : state V) o v c :
    node_u N k o = Ok None -> prop_v N k o None = Ok (v, c) -> std_variance_real N k o = Ok v.
  Proof.
    intros Hn. unfold prop_v. rewrite Hn. cbn [bind].
    destruct (std_variance_real N k o) as [v0|e]; cbn [bind]; [|discriminate].
    destruct (libm1 N F_sqrt v0) as [u|e]; cbn [bind]; [|discriminate].
    intros H; injection H as <- _. reflexivity.
  Qed.

  Theorem cprop_v_fresh (s : cstate V) a j m jr ore ji oim s' v :
    get_cplx C s a = Ok (j, m, (jr, ore), (ji, oim)) ->
    cm_v m = None ->
    node_u N (ks s) ore = Ok None -> node_u N (ks s) oim = Ok None ->
    (exists x y, get_real N (ks s) jr = Ok (x, y, None)) ->
    (forall c, exists x y, get_real N (set_cache N (ks s) jr ore c) ji = Ok (x, y, None)) ->
    cprop_v C s a = (s', Ok v) ->
    lpu_matrix (ks s) ore oim = Ok v.
  Proof.
    intros Hg Hm Hnr Hni [x1 [y1 Hr]] Hi H.
    unfold cprop_v in H. rewrite Hg, Hm, Hr in H.
    destruct (prop_v N (ks s) ore None) as [[vr cr']|e] eqn:Ev; [|discriminate].
    destruct (Hi cr') as [x2 [y2 Hi2]]. rewrite Hi2 in H.
    set (k1 := set_cache N (ks s) jr ore cr') in *.
    destruct (prop_v N k1 oim None) as [[vi ci']|e] eqn:Ev2; [|discriminate].
    set (k2 := set_cache N k1 ji oim ci') in *.
    destruct (std_covariance_real N k2 ore oim) as [cv|e] eqn:Ec; [|discriminate].
    injection H as _ <-.
    pose proof (prop_v_unread _ _ _ _ Hnr Ev) as Vr.
    assert (Hni1 : node_u N k1 oim = Ok None).
    { apply (node_u_frame N (ks s) k1); [apply frame_set_cache|exact Hni]. }
    pose proof (prop_v_unread _ _ _ _ Hni1 Ev2) as Vi1.
    assert (Vi : std_variance_real N (ks s) oim = Ok vi).
    { apply (std_variance_frame N k1 (ks s)); [apply frame_back|exact Vi1]. }
    assert (Cv : std_covariance_real N (ks s) ore oim = Ok cv).
    { apply (std_covariance_frame N k2 (ks s)); [|exact Ec].
      apply (frame_trans N k2 k1 (ks s)); apply frame_back. }
    unfold lpu_matrix. rewrite Vr, Vi, Cv. reflexivity.
  Qed.

  (* the matrix is symmetric by construction, whatever was cached *)
  Theorem cprop_v_symmetric (s : cstate V) a j m jr ore ji oim s' vrr vri vir vii :
    get_cplx C s a = Ok (j, m, (jr, ore), (ji, oim)) -> cm_v m = None ->
    cprop_v C s a = (s', Ok (vrr, vri, vir, vii)) -> vri = vir.
  Proof.
    intros Hg Hm H. unfold cprop_v in H. rewrite Hg, Hm in H.
    repeat match type of H with
           | (match ?X with _ => _ end) = _ => destruct X; try discriminate
           | (let '(_, _) := ?X in _) = _ => destruct X
           end.
    injection H; intros; subst; reflexivity.
  Qed.
End CMatrix.

(* ---------- non-vacuity: z = z1 + z2 in the binary64 instance ---------- *)
From Coq Require Import PrimFloat.
From GTCV Require Import FNum CFNum COpres.
Local Open Scope float_scope.

Definition cm_tbl : list oracle_entry := [(F_sqrt, [0x1.4000000000000p+0], Ok 0x1.1e3779b97f4a8p+0)].
Definition cm_C : CNum := FCNum cm_tbl [].
Definition cm_prog : list (cop float) :=
  [CUcomplex (NC (-0x1.4000000000000p+0) (-0x1.8000000000000p-1)) (UScalar 0x1.0000000000000p-1) (DFin 0x1.e000000000000p+2) None true;
   CUcomplex (NC 0x1.8000000000000p+1 (-0x1.0000000000000p-3)) (UScalar 0x1.0000000000000p+0) DInf None false;
   CBin B_add (CArgC 0) (CArgC 2)].
Definition cm_state : cstate float := fst (crun cm_C (cinit cm_C 1%Z) cm_prog).

(* the sum (slots 4, 5) meets every hypothesis of cprop_v_fresh, and the reported matrix is
   [[1.25, 0], [0, 1.25]] = [[0.5^2 + 1^2, 0], [0, 0.5^2 + 1^2]] *)
Example cprop_v_fresh_nonvacuous :
  exists j m ore oim s',
    get_cplx cm_C cm_state 4 = Ok (j, m, (4%nat, ore), (5%nat, oim)) /\ cm_v m = None /\
    node_u (cN cm_C) (ks cm_state) ore = Ok None /\ node_u (cN cm_C) (ks cm_state) oim = Ok None /\
    (exists x y, get_real (cN cm_C) (ks cm_state) 4 = Ok (x, y, None)) /\
    (forall c, exists x y, get_real (cN cm_C) (set_cache (cN cm_C) (ks cm_state) 4 ore c) 5 = Ok (x, y, None)) /\
    cprop_v cm_C cm_state 4 = (s', Ok (0x1.4p+0, 0x0p+0, 0x0p+0, 0x1.4p+0)) /\
    lpu_matrix cm_C (ks cm_state) ore oim = Ok (0x1.4p+0, 0x0p+0, 0x0p+0, 0x1.4p+0).
Proof.
  do 5 eexists. split; [vm_compute; reflexivity|].
  split; [reflexivity|]. split; [vm_compute; reflexivity|]. split; [vm_compute; reflexivity|].
  split; [do 2 eexists; vm_compute; reflexivity|].
  split; [intros c; do 2 eexists; vm_compute; reflexivity|].
  split; vm_compute; reflexivity.
Qed.

(* CKernelFacts.v -- structural facts about the complex kernel model that hold for every
   number instance (no real analysis).
   willink_hall_entry_independent (C10): the class-level accumulators of _EnsembleComponents
   are cleared before they are used on every path of willink_hall, so what a dof() call
   returns, the caches it fills and the accumulator values it leaves behind do not depend on
   the accumulator state on entry (left by an earlier call, possibly one that raised part-way)
   -- except that the paths which never touch the accumulators leave them as they were. *)
From Coq Require Import ZArith List Bool.
From GTCV Require Import Num Vector Opres KTypes Kernel Cplx COpres CKernel.
Import ListNotations.

Section WH.
  Variable C : CNum.
  Notation V := (T (cN C)).

  Theorem willink_hall_entry_independent :
    forall (k : state V) (a a' : option (V * V * V)) (jr ji : nat) (ore oim : ureal V),
      let '(k1, a1, r1) := willink_hall C k a jr ji ore oim in
      let '(k2, a2, r2) := willink_hall C k a' jr ji ore oim in
      k1 = k2 /\ r1 = r2 /\ (a1 = a2 \/ (a1 = a /\ a2 = a')).
  Proof.
    intros k a a' jr ji ore oim. unfold willink_hall.
    destruct (is_constant (cN C) ore && is_constant (cN C) oim); [auto|].
    match goal with |- context [if ?c then _ else _] => destruct c end; [auto|].
    destruct (all_inf (cN C) k (extend (uc ore) (uc oim))) as [iu|e1];
      destruct (all_inf (cN C) k (extend (dc ore) (dc oim))) as [id|e2]; auto.
    destruct (iu && id).
    - destruct (svcc C k jr ji) as [k1 [v|e]]; auto.
    - match goal with |- context [wh_indep ?c ?kk ?x ?y ?z] => destruct (wh_indep c kk x y z) as [a1 [e|]] end; auto.
      match goal with |- context [wh_dep ?c ?kk ?x ?y ?z ?w ?r ?aa] => destruct (wh_dep c kk x y z w r aa) as [a2 [reg|e]] end; auto.
      match goal with |- context [wh_finish ?c ?kk ?x ?aa] => destruct (wh_finish c kk x aa) as [a3 [e|]] end; auto.
      destruct (svcc C k jr ji) as [k1 [[[[s11 s12] s21] s22]|e]]; auto.
      match goal with |- context [if ?c then _ else _] => destruct c end; auto.
  Qed.

  (* the same statement at the level of the df read of the state machine: the observable
     output of  z.df  and the resulting kernel state do not depend on the accumulators *)
  Corollary cread_df_entry_independent :
    forall (s : cstate V) (a' : option (V * V * V)) (i : nat),
      snd (cread_df C s i) = snd (cread_df C (with_acc C s a') i) /\
      ks (fst (cread_df C s i)) = ks (fst (cread_df C (with_acc C s a') i)) /\
      cobjs (fst (cread_df C s i)) = cobjs (fst (cread_df C (with_acc C s a') i)).
  Proof.
    intros s a' i. unfold cread_df.
    change (get_cplx C (with_acc C s a') i) with (get_cplx C s i).
    destruct (get_cplx C s i) as [[[[j m] [jr ore]] [ji oim]]|e]; [|auto].
    cbn [with_acc ks wacc cobjs].
    pose proof (willink_hall_entry_independent (ks s) (wacc s) a' jr ji ore oim) as H.
    destruct (willink_hall C (ks s) (wacc s) jr ji ore oim) as [[k1 a1] r1].
    destruct (willink_hall C (ks s) a' jr ji ore oim) as [[k2 a2] r2].
    destruct H as [-> [-> _]].
    destruct r2 as [[[[[v11 v12] v21] v22] d]|e]; [|auto].
    destruct (cm_v m); auto.
  Qed.
End WH.

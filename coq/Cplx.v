(* Cplx.v -- Python's numeric tower {float, complex} over a Num, as CPython 3.12 computes it
   (Objects/complexobject.c): complex + - are componentwise, * is _Py_c_prod, / is _Py_c_quot
   (the branch on |b.real| >= |b.imag|), a mixed float/complex operation first widens the
   float operand to (x, 0.0); ** with an integer-valued exponent of magnitude <= 100 is
   c_powi (square-and-multiply with _Py_c_prod, reciprocal by _Py_c_quot, the
   _Py_ADJUST_ERANGE2 overflow rule); every other ** and every cmath function is an
   external function: an oracle table over floats, the mathematical function over the
   reals (CplxR.v).  abs(complex) is hypot through the libm oracle of the Num.
   Checked against /venv/bin/python 3.12.1 on a grid including -0.0, subnormals, inf, nan.
   Definitions only. *)
From Coq Require Import ZArith List Bool.
From GTCV Require Import Num.
Import ListNotations.

Inductive cfn :=
| C_exp | C_log | C_log10 | C_sqrt | C_sin | C_cos | C_tan | C_asin | C_acos | C_atan
| C_sinh | C_cosh | C_tanh | C_asinh | C_acosh | C_atanh | C_pow.

Definition cfn_eqb (a b : cfn) : bool :=
  match a, b with
  | C_exp, C_exp | C_log, C_log | C_log10, C_log10 | C_sqrt, C_sqrt | C_sin, C_sin
  | C_cos, C_cos | C_tan, C_tan | C_asin, C_asin | C_acos, C_acos | C_atan, C_atan
  | C_sinh, C_sinh | C_cosh, C_cosh | C_tanh, C_tanh | C_asinh, C_asinh
  | C_acosh, C_acosh | C_atanh, C_atanh | C_pow, C_pow => true
  | _, _ => false
  end.

(* a Num together with the external complex functions (cmath.*, general complex power) *)
Record CNum := {
  cN : Num;
  cm : cfn -> list (T cN) -> res (T cN * T cN)
}.

Fixpoint zrange (lo : Z) (n : nat) : list Z :=
  match n with O => [] | S n' => lo :: zrange (lo + 1) n' end.

Section Cplx.
  Variable C : CNum.
  Notation N := (cN C).
  Notation V := (T N).

  Definition cplx := (V * V)%type.

  (* a Python number: int and float are both [PR] (every path of the modelled code converts
     an int operand to a double before using it), complex is [PC] *)
  Inductive pyn := PR (v : V) | PC (re im : V).

  Definition zero : V := of_Z N 0.
  Definition one : V := of_Z N 1.
  Definition c_1 : cplx := (dyad N 1 0, dyad N 0 0).

  Definition widen (x : pyn) : cplx :=
    match x with PR v => (v, dyad N 0 0) | PC a b => (a, b) end.
  Definition of_c (z : cplx) : pyn := PC (fst z) (snd z).

  Definition c_prod (a b : cplx) : cplx :=
    (sub N (mul N (fst a) (fst b)) (mul N (snd a) (snd b)),
     add N (mul N (fst a) (snd b)) (mul N (snd a) (fst b))).

  Definition fabs_c (x : V) : V := if ltb N x (dyad N 0 0) then neg N x else x.

  (* _Py_c_quot; errno = EDOM is ZeroDivisionError.  The inner divisions are C divisions;
     their divisors cannot be zero (b.real + b.imag*ratio with |ratio| <= 1 has the sign of
     b.real), so [div N] never raises there *)
  Definition c_quot (a b : cplx) : res cplx :=
    let abr := fabs_c (fst b) in
    let abi := fabs_c (snd b) in
    if leb N abi abr then
      if eqb N abr (dyad N 0 0) then Err ZeroDivisionError
      else
        ratio <- div N (snd b) (fst b) ;;
        let denom := add N (fst b) (mul N (snd b) ratio) in
        re <- div N (add N (fst a) (mul N (snd a) ratio)) denom ;;
        im <- div N (sub N (snd a) (mul N (fst a) ratio)) denom ;;
        Ok (re, im)
    else if leb N abr abi then
      ratio <- div N (fst b) (snd b) ;;
      let denom := add N (mul N (fst b) ratio) (snd b) in
      re <- div N (add N (mul N (fst a) ratio) (snd a)) denom ;;
      im <- div N (sub N (mul N (snd a) ratio) (fst a)) denom ;;
      Ok (re, im)
    else
      (* at least one of b.real, b.imag is a NaN: the result is (NaN, NaN) *)
      Ok (add N (fst b) (snd b), add N (fst b) (snd b)).

  (* c_powu: r = 1; p = x; for each bit of n from the least significant: r *= p if set; p *= p *)
  Fixpoint powu (r p : cplx) (n : positive) : cplx :=
    match n with
    | xH => c_prod r p
    | xO n' => powu r (c_prod p p) n'
    | xI n' => powu (c_prod r p) (c_prod p p) n'
    end.

  Definition adjust_erange (p : cplx) : res cplx :=
    if is_inf N (fst p) || is_inf N (snd p) then Err OverflowError else Ok p.

  Definition c_powi (x : cplx) (n : Z) : res cplx :=
    match n with
    | Zpos p => adjust_erange (powu c_1 x p)
    | Z0 => q <- c_quot c_1 c_1 ;; adjust_erange q
    | Zneg p => q <- c_quot c_1 (powu c_1 x p) ;; adjust_erange q
    end.

  (* b.real == floor(b.real) && fabs(b.real) <= 100.0 : the integer it is *)
  Definition small_int (v : V) : option Z :=
    find (fun k => eqb N v (of_Z N k)) (zrange (-100) 201).

  Definition c_pow (a b : cplx) : res cplx :=
    match (if eqb N (snd b) (dyad N 0 0) then small_int (fst b) else None) with
    | Some n => c_powi a n
    | None => cm C C_pow [fst a; snd a; fst b; snd b]
    end.

  (* ---------- the dynamically typed operations ---------- *)
  Definition n_add (a b : pyn) : pyn :=
    match a, b with
    | PR x, PR y => PR (add N x y)
    | _, _ => let (ar, ai) := widen a in let (br, bi) := widen b in PC (add N ar br) (add N ai bi)
    end.
  Definition n_sub (a b : pyn) : pyn :=
    match a, b with
    | PR x, PR y => PR (sub N x y)
    | _, _ => let (ar, ai) := widen a in let (br, bi) := widen b in PC (sub N ar br) (sub N ai bi)
    end.
  Definition n_mul (a b : pyn) : pyn :=
    match a, b with
    | PR x, PR y => PR (mul N x y)
    | _, _ => of_c (c_prod (widen a) (widen b))
    end.
  Definition n_div (a b : pyn) : res pyn :=
    match a, b with
    | PR x, PR y => q <- div N x y ;; Ok (PR q)
    | _, _ => q <- c_quot (widen a) (widen b) ;; Ok (of_c q)
    end.
  Definition n_neg (a : pyn) : pyn :=
    match a with PR x => PR (neg N x) | PC x y => PC (neg N x) (neg N y) end.
  Definition n_pow (a b : pyn) : res pyn :=
    match a, b with
    | PR x, PR y => p <- libm2 N F_pow x y ;; Ok (PR p)
    | _, _ => p <- c_pow (widen a) (widen b) ;; Ok (of_c p)
    end.
  Definition n_eqb (a b : pyn) : bool :=
    match a, b with
    | PR x, PR y => eqb N x y
    | _, _ => let (ar, ai) := widen a in let (br, bi) := widen b in eqb N ar br && eqb N ai bi
    end.
  (* abs() *)
  Definition n_abs (a : pyn) : res pyn :=
    match a with
    | PR x => Ok (PR (nabs N x))
    | PC x y => h <- libm2 N F_hypot x y ;; Ok (PR h)
    end.
  (* the attributes .real and .imag (a float has them too) *)
  Definition n_real (a : pyn) : V := fst (widen a).
  Definition n_imag (a : pyn) : V := snd (widen a).
  (* complex(x) *)
  Definition n_complex (a : pyn) : pyn := of_c (widen a).
  (* cmath.f(x) *)
  Definition n_cm (f : cfn) (a : pyn) : res pyn :=
    let (x, y) := widen a in r <- cm C f [x; y] ;; Ok (of_c r).

  (* lib.z_to_seq *)
  Definition jac := (V * V * V * V)%type.
  Definition z_to_seq (z : pyn) : jac :=
    let (re, im) := widen z in (re, neg N im, im, re).
  Definition j0 (j : jac) : V := fst (fst (fst j)).
  Definition j1 (j : jac) : V := snd (fst (fst j)).
  Definition j2 (j : jac) : V := snd (fst j).
  Definition j3 (j : jac) : V := snd j.

  Definition is_real (a : pyn) : bool := match a with PR _ => true | PC _ _ => false end.
End Cplx.

Arguments PR {C} v.
Arguments PC {C} re im.

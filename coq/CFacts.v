(* CFacts.v -- theorems about the uncertain-complex kernel (CKernel.v) over the reals:
   A. the six assemblers compute  J * (operand components)  (pure vector algebra);
   B. a complex result whose components are assembled from operands that denote functions of
      the inputs denotes the composed function, provided the 4-tuples passed in are the total
      derivatives of its two coordinates (ChainRule's Den / bin_der lifted to four real
      arguments);
   C. the derivative tables: * and / on R^2, the Cauchy-Riemann table of exp sin cos sinh
      cosh and log (right half plane), magnitude, mag_squared. *)
From Coq Require Import ZArith List Bool Reals Lia Lra Psatz FunctionalExtensionality.
From Coquelicot Require Import Coquelicot.
From GTCV Require Import Num RNum Vector VectorFacts Opres KTypes Kernel DerivTable ChainRule.
From GTCV Require Import Cplx CplxR COpres CKernel.
Import ListNotations.
Local Open Scope R_scope.

Notation rjac := (jac RCNum).
Notation rpyn := (pyn RCNum).
Notation J0 := (j0 RCNum). Notation J1 := (j1 RCNum). Notation J2 := (j2 RCNum). Notation J3 := (j3 RCNum).

(* ================= A. the assemblers are J * components ================= *)
Definition all_sorted (o : ureal) : Prop := sorted (uc o) /\ sorted (dc o) /\ sorted (ic o).

Ltac asm_solve :=
  cbv zeta; intros; unfold all_sorted in *;
  repeat match goal with H : _ /\ _ |- _ => destruct H end;
  cbn [fst snd univariate_uc bivariate_uc_uc bivariate_uc_ur bivariate_uc_n bivariate_ur_uc bivariate_n_uc
       mk3 new_un uc dc ic];
  repeat split;
  repeat (first [ rewrite get0_merge by (repeat first [apply sorted_merge_w | apply sorted_scale | assumption])
                | rewrite get0_merge_w by assumption
                | rewrite get0_scale ]);
  try change (T (cN RCNum)) with R in *; try change (T RNum) with R in *; ring.

Theorem asm_univariate re im (z : rpyn) (j : rjac) k :
  all_sorted re -> all_sorted im ->
  let r := univariate_uc RCNum re im z j in
  (get0 (uc (fst r)) k = J0 j * get0 (uc re) k + J1 j * get0 (uc im) k /\
   get0 (dc (fst r)) k = J0 j * get0 (dc re) k + J1 j * get0 (dc im) k /\
   get0 (ic (fst r)) k = J0 j * get0 (ic re) k + J1 j * get0 (ic im) k) /\
  (get0 (uc (snd r)) k = J2 j * get0 (uc re) k + J3 j * get0 (uc im) k /\
   get0 (dc (snd r)) k = J2 j * get0 (dc re) k + J3 j * get0 (dc im) k /\
   get0 (ic (snd r)) k = J2 j * get0 (ic re) k + J3 j * get0 (ic im) k).
Proof. asm_solve. Qed.

Theorem asm_uc_uc lr li rr ri (z : rpyn) (dl dr : rjac) k :
  all_sorted lr -> all_sorted li -> all_sorted rr -> all_sorted ri ->
  let r := bivariate_uc_uc RCNum lr li rr ri z dl dr in
  (get0 (uc (fst r)) k = J0 dl * get0 (uc lr) k + J1 dl * get0 (uc li) k + J0 dr * get0 (uc rr) k + J1 dr * get0 (uc ri) k /\
   get0 (dc (fst r)) k = J0 dl * get0 (dc lr) k + J1 dl * get0 (dc li) k + J0 dr * get0 (dc rr) k + J1 dr * get0 (dc ri) k /\
   get0 (ic (fst r)) k = J0 dl * get0 (ic lr) k + J1 dl * get0 (ic li) k + J0 dr * get0 (ic rr) k + J1 dr * get0 (ic ri) k) /\
  (get0 (uc (snd r)) k = J2 dl * get0 (uc lr) k + J3 dl * get0 (uc li) k + J2 dr * get0 (uc rr) k + J3 dr * get0 (uc ri) k /\
   get0 (dc (snd r)) k = J2 dl * get0 (dc lr) k + J3 dl * get0 (dc li) k + J2 dr * get0 (dc rr) k + J3 dr * get0 (dc ri) k /\
   get0 (ic (snd r)) k = J2 dl * get0 (ic lr) k + J3 dl * get0 (ic li) k + J2 dr * get0 (ic rr) k + J3 dr * get0 (ic ri) k).
Proof. asm_solve. Qed.

Theorem asm_uc_ur lr li r0 (z : rpyn) (dl dr : rjac) k :
  all_sorted lr -> all_sorted li -> all_sorted r0 ->
  let r := bivariate_uc_ur RCNum lr li r0 z dl dr in
  (get0 (uc (fst r)) k = J0 dl * get0 (uc lr) k + J1 dl * get0 (uc li) k + J0 dr * get0 (uc r0) k /\
   get0 (dc (fst r)) k = J0 dl * get0 (dc lr) k + J1 dl * get0 (dc li) k + J0 dr * get0 (dc r0) k /\
   get0 (ic (fst r)) k = J0 dl * get0 (ic lr) k + J1 dl * get0 (ic li) k + J0 dr * get0 (ic r0) k) /\
  (get0 (uc (snd r)) k = J2 dl * get0 (uc lr) k + J3 dl * get0 (uc li) k + J2 dr * get0 (uc r0) k /\
   get0 (dc (snd r)) k = J2 dl * get0 (dc lr) k + J3 dl * get0 (dc li) k + J2 dr * get0 (dc r0) k /\
   get0 (ic (snd r)) k = J2 dl * get0 (ic lr) k + J3 dl * get0 (ic li) k + J2 dr * get0 (ic r0) k).
Proof. asm_solve. Qed.

Theorem asm_uc_n lr li (z : rpyn) (dl dr : rjac) k :
  all_sorted lr -> all_sorted li ->
  let r := bivariate_uc_n RCNum lr li z dl dr in
  (get0 (uc (fst r)) k = J0 dl * get0 (uc lr) k + J1 dl * get0 (uc li) k /\
   get0 (dc (fst r)) k = J0 dl * get0 (dc lr) k + J1 dl * get0 (dc li) k /\
   get0 (ic (fst r)) k = J0 dl * get0 (ic lr) k + J1 dl * get0 (ic li) k) /\
  (get0 (uc (snd r)) k = J2 dl * get0 (uc lr) k + J3 dl * get0 (uc li) k /\
   get0 (dc (snd r)) k = J2 dl * get0 (dc lr) k + J3 dl * get0 (dc li) k /\
   get0 (ic (snd r)) k = J2 dl * get0 (ic lr) k + J3 dl * get0 (ic li) k).
Proof. asm_solve. Qed.

Theorem asm_ur_uc l0 rr ri (z : rpyn) (dl dr : rjac) k :
  all_sorted l0 -> all_sorted rr -> all_sorted ri ->
  let r := bivariate_ur_uc RCNum l0 rr ri z dl dr in
  (get0 (uc (fst r)) k = J0 dl * get0 (uc l0) k + J0 dr * get0 (uc rr) k + J1 dr * get0 (uc ri) k /\
   get0 (dc (fst r)) k = J0 dl * get0 (dc l0) k + J0 dr * get0 (dc rr) k + J1 dr * get0 (dc ri) k /\
   get0 (ic (fst r)) k = J0 dl * get0 (ic l0) k + J0 dr * get0 (ic rr) k + J1 dr * get0 (ic ri) k) /\
  (get0 (uc (snd r)) k = J2 dl * get0 (uc l0) k + J2 dr * get0 (uc rr) k + J3 dr * get0 (uc ri) k /\
   get0 (dc (snd r)) k = J2 dl * get0 (dc l0) k + J2 dr * get0 (dc rr) k + J3 dr * get0 (dc ri) k /\
   get0 (ic (snd r)) k = J2 dl * get0 (ic l0) k + J2 dr * get0 (ic rr) k + J3 dr * get0 (ic ri) k).
Proof. asm_solve. Qed.

Theorem asm_n_uc rr ri (z : rpyn) (dl dr : rjac) k :
  all_sorted rr -> all_sorted ri ->
  let r := bivariate_n_uc RCNum rr ri z dl dr in
  (get0 (uc (fst r)) k = J0 dr * get0 (uc rr) k + J1 dr * get0 (uc ri) k /\
   get0 (dc (fst r)) k = J0 dr * get0 (dc rr) k + J1 dr * get0 (dc ri) k /\
   get0 (ic (fst r)) k = J0 dr * get0 (ic rr) k + J1 dr * get0 (ic ri) k) /\
  (get0 (uc (snd r)) k = J2 dr * get0 (uc rr) k + J3 dr * get0 (uc ri) k /\
   get0 (dc (snd r)) k = J2 dr * get0 (dc rr) k + J3 dr * get0 (dc ri) k /\
   get0 (ic (snd r)) k = J2 dr * get0 (ic rr) k + J3 dr * get0 (ic ri) k).
Proof. asm_solve. Qed.

(* ================= B. denotations of assembled results ================= *)
Section CDen.
  Variable U : key -> R.
  Variable I : key -> bool.
  Variable e0 : env.
  Notation Den := (Den U I e0).
  Notation DenOp := (DenOp U I e0).

  (* f : R^4 -> R has total derivative (wa, wb, wc, wd) at (a, b, c, d) along every
     differentiable curve *)
  Definition quad_der (f : R -> R -> R -> R -> R) (a b c d wa wb wc wd : R) : Prop :=
    forall (A B C D : R -> R) (t0 da db dc dd : R),
      A t0 = a -> B t0 = b -> C t0 = c -> D t0 = d ->
      is_derive A t0 da -> is_derive B t0 db -> is_derive C t0 dc -> is_derive D t0 dd ->
      is_derive (fun t => f (A t) (B t) (C t) (D t)) t0 (wa * da + wb * db + wc * dc + wd * dd).

  Lemma den_gen4 a b c d Fa Fb Fc Fd (f : R -> R -> R -> R -> R) y wa wb wc wd cu cd i nd :
    DenOp a Fa -> DenOp b Fb -> DenOp c Fc -> DenOp d Fd ->
    y = f (valOp a) (valOp b) (valOp c) (valOp d) ->
    quad_der f (valOp a) (valOp b) (valOp c) (valOp d) wa wb wc wd ->
    sorted cu -> sorted cd ->
    (forall k, In k (keys cu) -> I k = true) -> (forall k, In k (keys cd) -> I k = false) ->
    (forall k, get0 cu k + get0 cd k =
               wa * compOp a k + wb * compOp b k + wc * compOp c k + wd * compOp d k) ->
    Den (mkU y cu cd i nd) (fun e => f (Fa e) (Fb e) (Fc e) (Fd e)).
  Proof.
    intros Ha Hb Hc Hd Hy Hf Su Sd Ku Kd Hlin.
    pose proof (DenOp_val _ _ _ _ _ Ha) as Va. pose proof (DenOp_val _ _ _ _ _ Hb) as Vb.
    pose proof (DenOp_val _ _ _ _ _ Hc) as Vc. pose proof (DenOp_val _ _ _ _ _ Hd) as Vd.
    split; simpl; auto.
    - rewrite <- Va, <- Vb, <- Vc, <- Vd; auto.
    - intros k.
      destruct (DenOp_der _ _ _ _ _ k Ha) as [Da [A1 [A2 _]]].
      destruct (DenOp_der _ _ _ _ _ k Hb) as [Db [B1 [B2 _]]].
      destruct (DenOp_der _ _ _ _ _ k Hc) as [Dc [C1 [C2 _]]].
      destruct (DenOp_der _ _ _ _ _ k Hd) as [Dd [D1 [D2 _]]].
      exists (wa * Da + wb * Db + wc * Dc + wd * Dd). split.
      + apply (Hf (fun t => Fa (upd e0 k t)) (fun t => Fb (upd e0 k t))
                  (fun t => Fc (upd e0 k t)) (fun t => Fd (upd e0 k t))); auto;
          rewrite upd_same; auto.
      + unfold comp; cbn [uc dc]. rewrite Hlin, A2, B2, C2, D2. ring.
  Qed.

  Lemma denop_const v : DenOp (@OpdN RNum v) (fun _ => v).
  Proof. simpl; split; auto. intros k. auto_derive; auto. Qed.

  Ltac kd_solve :=
    try change (cN RCNum) with RNum in *;
    repeat match goal with
           | H : ChainRule.Den _ _ _ ?o _ |- _ =>
               lazymatch goal with
               | _ : sorted (uc o) |- _ => fail
               | _ => let S1 := fresh "S" in let S2 := fresh "S" in let K1 := fresh "K" in let K2 := fresh "K" in
                      destruct (Den_sorted _ _ _ _ _ H) as [S1 S2]; destruct (Den_keys _ _ _ _ _ H) as [K1 K2]
               end
           end;
    lazymatch goal with
    | |- Vector.sorted _ =>
        repeat first [apply sorted_merge | apply sorted_merge_w | apply sorted_scale | assumption]
    | |- forall k0, In k0 _ -> _ =>
        let k0 := fresh "k" in let Hin := fresh "Hin" in
        intros k0 Hin;
        repeat match goal with
               | Hx : In _ (keys (merge _ _)) |- _ => apply (keys_mloop RNum) in Hx; destruct Hx as [Hx|Hx]
               | Hx : In _ (keys (merge_w _ _ _ _)) |- _ => apply keys_merge_w in Hx; destruct Hx as [Hx|Hx]
               | Hx : In _ (keys (scale _ _)) |- _ => rewrite keys_scale in Hx
               end; auto
    | |- forall k0, _ = _ =>
        let k0 := fresh "k" in
        intros k0; unfold ChainRule.comp; cbn [compOp];
        repeat first [ rewrite get0_merge by (repeat first [apply sorted_merge_w | apply sorted_scale | assumption])
                     | rewrite get0_merge_w by assumption
                     | rewrite get0_scale ];
        unfold ChainRule.comp; try change (T (cN RCNum)) with R in *; try change (T RNum) with R in *; ring
    | |- _ => idtac
    end.

  (* ---- one complex operand: _univariate_uc ---- *)
  Lemma den_univariate re im Fa Fb (fre fim : R -> R -> R) (z : rpyn) (j : rjac) :
    Den re Fa -> Den im Fb ->
    n_real RCNum z = fre (ux re) (ux im) -> n_imag RCNum z = fim (ux re) (ux im) ->
    bin_der fre (ux re) (ux im) (J0 j) (J1 j) -> bin_der fim (ux re) (ux im) (J2 j) (J3 j) ->
    Den (fst (univariate_uc RCNum re im z j)) (fun e => fre (Fa e) (Fb e)) /\
    Den (snd (univariate_uc RCNum re im z j)) (fun e => fim (Fa e) (Fb e)).
  Proof.
    intros Ha Hb Vr Vi Dr Di.
    pose proof (den_val _ _ _ _ _ Ha) as Va. pose proof (den_val _ _ _ _ _ Hb) as Vb.
    cbn [fst snd univariate_uc mk3 new_un]. split.
    - apply den_merge_w; auto; rewrite <- Va, <- Vb; auto.
    - apply den_merge_w; auto; rewrite <- Va, <- Vb; auto.
  Qed.

  (* ---- two operands, each a pair of real-valued operands: the lhs pair (a, b) and the rhs
     pair (c, d); which of them are uncertain depends on the assembler ---- *)
  Lemma den_uc_uc lr li rr ri Fa Fb Fc Fd (fre fim : R -> R -> R -> R -> R) (z : rpyn) (dl dr : rjac) :
    Den lr Fa -> Den li Fb -> Den rr Fc -> Den ri Fd ->
    n_real RCNum z = fre (ux lr) (ux li) (ux rr) (ux ri) ->
    n_imag RCNum z = fim (ux lr) (ux li) (ux rr) (ux ri) ->
    quad_der fre (ux lr) (ux li) (ux rr) (ux ri) (J0 dl) (J1 dl) (J0 dr) (J1 dr) ->
    quad_der fim (ux lr) (ux li) (ux rr) (ux ri) (J2 dl) (J3 dl) (J2 dr) (J3 dr) ->
    Den (fst (bivariate_uc_uc RCNum lr li rr ri z dl dr)) (fun e => fre (Fa e) (Fb e) (Fc e) (Fd e)) /\
    Den (snd (bivariate_uc_uc RCNum lr li rr ri z dl dr)) (fun e => fim (Fa e) (Fb e) (Fc e) (Fd e)).
  Proof.
    intros Ha Hb Hc Hd Vr Vi Dr Di.
    cbn [fst snd bivariate_uc_uc mk3 new_un]. split.
    - apply (den_gen4 (@OpdU RNum lr) (@OpdU RNum li) (@OpdU RNum rr) (@OpdU RNum ri) Fa Fb Fc Fd fre _ (J0 dl) (J1 dl) (J0 dr) (J1 dr));
        auto; kd_solve.
    - apply (den_gen4 (@OpdU RNum lr) (@OpdU RNum li) (@OpdU RNum rr) (@OpdU RNum ri) Fa Fb Fc Fd fim _ (J2 dl) (J3 dl) (J2 dr) (J3 dr));
        auto; kd_solve.
  Qed.

  Lemma den_uc_ur lr li r0 dv Fa Fb Fc (fre fim : R -> R -> R -> R -> R) (z : rpyn) (dl dr : rjac) wd wd' :
    Den lr Fa -> Den li Fb -> Den r0 Fc ->
    n_real RCNum z = fre (ux lr) (ux li) (ux r0) dv ->
    n_imag RCNum z = fim (ux lr) (ux li) (ux r0) dv ->
    quad_der fre (ux lr) (ux li) (ux r0) dv (J0 dl) (J1 dl) (J0 dr) wd ->
    quad_der fim (ux lr) (ux li) (ux r0) dv (J2 dl) (J3 dl) (J2 dr) wd' ->
    Den (fst (bivariate_uc_ur RCNum lr li r0 z dl dr)) (fun e => fre (Fa e) (Fb e) (Fc e) dv) /\
    Den (snd (bivariate_uc_ur RCNum lr li r0 z dl dr)) (fun e => fim (Fa e) (Fb e) (Fc e) dv).
  Proof.
    intros Ha Hb Hc Vr Vi Dr Di. pose proof (denop_const dv) as Hd.
    cbn [fst snd bivariate_uc_ur mk3 new_un]. split.
    - apply (den_gen4 (@OpdU RNum lr) (@OpdU RNum li) (@OpdU RNum r0) (@OpdN RNum dv) Fa Fb Fc (fun _ => dv) fre _ (J0 dl) (J1 dl) (J0 dr) wd);
        auto; kd_solve.
    - apply (den_gen4 (@OpdU RNum lr) (@OpdU RNum li) (@OpdU RNum r0) (@OpdN RNum dv) Fa Fb Fc (fun _ => dv) fim _ (J2 dl) (J3 dl) (J2 dr) wd');
        auto; kd_solve.
  Qed.

  Lemma den_uc_n lr li cv dv Fa Fb (fre fim : R -> R -> R -> R -> R) (z : rpyn) (dl dr : rjac) wc wd wc' wd' :
    Den lr Fa -> Den li Fb ->
    n_real RCNum z = fre (ux lr) (ux li) cv dv ->
    n_imag RCNum z = fim (ux lr) (ux li) cv dv ->
    quad_der fre (ux lr) (ux li) cv dv (J0 dl) (J1 dl) wc wd ->
    quad_der fim (ux lr) (ux li) cv dv (J2 dl) (J3 dl) wc' wd' ->
    Den (fst (bivariate_uc_n RCNum lr li z dl dr)) (fun e => fre (Fa e) (Fb e) cv dv) /\
    Den (snd (bivariate_uc_n RCNum lr li z dl dr)) (fun e => fim (Fa e) (Fb e) cv dv).
  Proof.
    intros Ha Hb Vr Vi Dr Di. pose proof (denop_const cv) as Hc. pose proof (denop_const dv) as Hd.
    cbn [fst snd bivariate_uc_n mk3 new_un]. split.
    - apply (den_gen4 (@OpdU RNum lr) (@OpdU RNum li) (@OpdN RNum cv) (@OpdN RNum dv) Fa Fb (fun _ => cv) (fun _ => dv) fre _ (J0 dl) (J1 dl) wc wd);
        auto; kd_solve.
    - apply (den_gen4 (@OpdU RNum lr) (@OpdU RNum li) (@OpdN RNum cv) (@OpdN RNum dv) Fa Fb (fun _ => cv) (fun _ => dv) fim _ (J2 dl) (J3 dl) wc' wd');
        auto; kd_solve.
  Qed.

  Lemma den_ur_uc l0 bv rr ri Fa Fc Fd (fre fim : R -> R -> R -> R -> R) (z : rpyn) (dl dr : rjac) wb wb' :
    Den l0 Fa -> Den rr Fc -> Den ri Fd ->
    n_real RCNum z = fre (ux l0) bv (ux rr) (ux ri) ->
    n_imag RCNum z = fim (ux l0) bv (ux rr) (ux ri) ->
    quad_der fre (ux l0) bv (ux rr) (ux ri) (J0 dl) wb (J0 dr) (J1 dr) ->
    quad_der fim (ux l0) bv (ux rr) (ux ri) (J2 dl) wb' (J2 dr) (J3 dr) ->
    Den (fst (bivariate_ur_uc RCNum l0 rr ri z dl dr)) (fun e => fre (Fa e) bv (Fc e) (Fd e)) /\
    Den (snd (bivariate_ur_uc RCNum l0 rr ri z dl dr)) (fun e => fim (Fa e) bv (Fc e) (Fd e)).
  Proof.
    intros Ha Hc Hd Vr Vi Dr Di. pose proof (denop_const bv) as Hb.
    cbn [fst snd bivariate_ur_uc mk3 new_un]. split.
    - apply (den_gen4 (@OpdU RNum l0) (@OpdN RNum bv) (@OpdU RNum rr) (@OpdU RNum ri) Fa (fun _ => bv) Fc Fd fre _ (J0 dl) wb (J0 dr) (J1 dr));
        auto; kd_solve.
    - apply (den_gen4 (@OpdU RNum l0) (@OpdN RNum bv) (@OpdU RNum rr) (@OpdU RNum ri) Fa (fun _ => bv) Fc Fd fim _ (J2 dl) wb' (J2 dr) (J3 dr));
        auto; kd_solve.
  Qed.

  Lemma den_n_uc av bv rr ri Fc Fd (fre fim : R -> R -> R -> R -> R) (z : rpyn) (dl dr : rjac) wa wb wa' wb' :
    Den rr Fc -> Den ri Fd ->
    n_real RCNum z = fre av bv (ux rr) (ux ri) ->
    n_imag RCNum z = fim av bv (ux rr) (ux ri) ->
    quad_der fre av bv (ux rr) (ux ri) wa wb (J0 dr) (J1 dr) ->
    quad_der fim av bv (ux rr) (ux ri) wa' wb' (J2 dr) (J3 dr) ->
    Den (fst (bivariate_n_uc RCNum rr ri z dl dr)) (fun e => fre av bv (Fc e) (Fd e)) /\
    Den (snd (bivariate_n_uc RCNum rr ri z dl dr)) (fun e => fim av bv (Fc e) (Fd e)).
  Proof.
    intros Hc Hd Vr Vi Dr Di. pose proof (denop_const av) as Ha. pose proof (denop_const bv) as Hb.
    cbn [fst snd bivariate_n_uc mk3 new_un]. split.
    - apply (den_gen4 (@OpdN RNum av) (@OpdN RNum bv) (@OpdU RNum rr) (@OpdU RNum ri) (fun _ => av) (fun _ => bv) Fc Fd fre _ wa wb (J0 dr) (J1 dr));
        auto; kd_solve.
    - apply (den_gen4 (@OpdN RNum av) (@OpdN RNum bv) (@OpdU RNum rr) (@OpdU RNum ri) (fun _ => av) (fun _ => bv) Fc Fd fim _ wa' wb' (J2 dr) (J3 dr));
        auto; kd_solve.
  Qed.
End CDen.

(* ================= C. derivative tables ================= *)
Ltac qd_start :=
  let A := fresh "A" in let B := fresh "B" in let C := fresh "C" in let D := fresh "D" in
  intros A B C D t0 da db dc dd EA EB EC ED HA HB HC HD;
  assert (HA' : ex_derive A t0) by (eexists; eauto);
  assert (HB' : ex_derive B t0) by (eexists; eauto);
  assert (HC' : ex_derive C t0) by (eexists; eauto);
  assert (HD' : ex_derive D t0) by (eexists; eauto).

Ltac qd_subst :=
  repeat match goal with
         | H : is_derive ?A ?t0 ?da |- context [Derive (fun x => ?A x) ?t0] =>
             replace (Derive (fun x => A x) t0) with da by (symmetry; apply is_derive_unique; exact H)
         end;
  repeat match goal with E : _ ?t0 = _ |- _ => rewrite E; clear E end.

Definition mul_re (a b c d : R) : R := a * c - b * d.
Definition mul_im (a b c d : R) : R := a * d + b * c.
Definition div_re (a b c d : R) : R := (a * c + b * d) / (c * c + d * d).
Definition div_im (a b c d : R) : R := (b * c - a * d) / (c * c + d * d).
Definition add_re (a b c d : R) : R := a + c.
Definition add_im (a b c d : R) : R := b + d.
Definition sub_re (a b c d : R) : R := a - c.
Definition sub_im (a b c d : R) : R := b - d.

Lemma qd_mul_re a b c d : quad_der mul_re a b c d c (- d) a (- b).
Proof. qd_start. unfold mul_re. auto_derive; [repeat split; auto|]. qd_subst. ring. Qed.

Lemma qd_mul_im a b c d : quad_der mul_im a b c d d c b a.
Proof. qd_start. unfold mul_im. auto_derive; [repeat split; auto|]. qd_subst. ring. Qed.

(* the weights the source passes for l / r:  z_to_seq(1/r)  and  z_to_seq(-z/r) *)
Lemma qd_div_re a b c d : c * c + d * d <> 0 ->
  let n := c * c + d * d in
  let zr := div_re a b c d in let zi := div_im a b c d in
  quad_der div_re a b c d (c / n) (d / n) ((- zr * c + - zi * d) / n) (- ((- zi * c - - zr * d) / n)).
Proof.
  intros Hn n zr zi. subst n zr zi. qd_start. unfold div_re, div_im. auto_derive.
  - repeat split; auto. rewrite EC, ED. replace (c * c + d * d) with (c * c + d * d) by ring. exact Hn.
  - qd_subst. field. exact Hn.
Qed.

Lemma qd_div_im a b c d : c * c + d * d <> 0 ->
  let n := c * c + d * d in
  let zr := div_re a b c d in let zi := div_im a b c d in
  quad_der div_im a b c d (- d / n) (c / n) ((- zi * c - - zr * d) / n) ((- zr * c + - zi * d) / n).
Proof.
  intros Hn n zr zi. subst n zr zi. qd_start. unfold div_re, div_im. auto_derive.
  - repeat split; auto. rewrite EC, ED. exact Hn.
  - qd_subst. field. exact Hn.
Qed.

Lemma qd_add_re a b c d : quad_der add_re a b c d 1 0 1 0.
Proof. qd_start. unfold add_re. auto_derive; [repeat split; auto|]. qd_subst. ring. Qed.
Lemma qd_add_im a b c d : quad_der add_im a b c d 0 1 0 1.
Proof. qd_start. unfold add_im. auto_derive; [repeat split; auto|]. qd_subst. ring. Qed.
Lemma qd_sub_re a b c d : quad_der sub_re a b c d 1 0 (-1) 0.
Proof. qd_start. unfold sub_re. auto_derive; [repeat split; auto|]. qd_subst. ring. Qed.
Lemma qd_sub_im a b c d : quad_der sub_im a b c d 0 1 0 (-1).
Proof. qd_start. unfold sub_im. auto_derive; [repeat split; auto|]. qd_subst. ring. Qed.

(* ---------- the Cauchy-Riemann table ---------- *)
(* f : R^2 -> R^2 has at z the real Jacobian [[p, -q], [q, p]] with p + jq = d *)
Definition cr_at (f : RC -> RC) (z d : RC) : Prop :=
  bin_der (fun a b => fst (f (a, b))) (fst z) (snd z) (fst d) (- snd d) /\
  bin_der (fun a b => snd (f (a, b))) (fst z) (snd z) (snd d) (fst d).

Ltac bd_start :=
  let A := fresh "A" in let B := fresh "B" in
  intros A B t0 da db EA EB HA HB;
  assert (HA' : ex_derive A t0) by (eexists; eauto);
  assert (HB' : ex_derive B t0) by (eexists; eauto).

Ltac cr_tac :=
  intros [a b]; split; cbn [fst snd]; bd_start;
  unfold cexp_R, csin_R, ccos_R, csinh_R, ccosh_R, cosh, sinh; cbn [fst snd];
  (auto_derive; [repeat split; auto|]); qd_subst; try field; try ring.

Theorem cr_exp : forall z, cr_at cexp_R z (cexp_R z).
Proof. cr_tac. Qed.

Theorem cr_sin : forall z, cr_at csin_R z (ccos_R z).
Proof. cr_tac. Qed.

Theorem cr_cos : forall z, cr_at ccos_R z (- fst (csin_R z), - snd (csin_R z)).
Proof. cr_tac. Qed.

Theorem cr_sinh : forall z, cr_at csinh_R z (ccosh_R z).
Proof. cr_tac. Qed.

Theorem cr_cosh : forall z, cr_at ccosh_R z (csinh_R z).
Proof. cr_tac. Qed.

(* z * z *)
Theorem cr_square : forall z, cr_at (fun w => cmul_R w w) z (2 * fst z, 2 * snd z).
Proof.
  intros [a b]; split; cbn [fst snd]; bd_start; unfold cmul_R; cbn [fst snd];
    (auto_derive; [repeat split; auto|]); qd_subst; ring.
Qed.

(* log on the right half plane: f'(z) = 1/z *)
Theorem cr_log_right : forall z, 0 < fst z ->
  cr_at clog_R z (cdiv_R (1, 0) z).
Proof.
  intros [a b] Ha; cbn [fst snd] in Ha.
  assert (Hn : 0 < a * a + b * b) by nra.
  split; cbn [fst snd]; unfold clog_R, cabs_R, cdiv_R, cnorm2; cbn [fst snd].
  - bd_start. auto_derive.
    + repeat split; auto; rewrite EA, EB; auto. apply sqrt_lt_R0; auto.
    + qd_subst.
      assert (Hs : sqrt (a * a + b * b) * sqrt (a * a + b * b) = a * a + b * b) by (apply sqrt_sqrt; lra).
      assert (Hs0 : sqrt (a * a + b * b) <> 0) by (apply Rgt_not_eq, sqrt_lt_R0; auto).
      set (s := sqrt (a * a + b * b)) in *. rewrite <- Hs. field. exact Hs0.
  - intros A B t0 da db EA EB HA HB.
    pose proof (bd_atan2 b a (or_introl Ha) (fun t => B t) (fun t => A t) t0 db da EB EA HB HA) as H.
    eapply is_derive_eq; [exact H|]. field. lra.
Qed.

(* magnitude and mag_squared: real Jacobians *)
Theorem jac_magnitude a b : a * a + b * b <> 0 ->
  bin_der (fun x y => sqrt (x * x + y * y)) a b (a / sqrt (a * a + b * b)) (b / sqrt (a * a + b * b)).
Proof.
  intros Hn. assert (Hp : 0 < a * a + b * b) by nra.
  bd_start. auto_derive.
  - repeat split; auto. rewrite EA, EB; auto.
  - qd_subst. assert (Hs0 : sqrt (a * a + b * b) <> 0) by (apply Rgt_not_eq, sqrt_lt_R0; auto).
    field. auto.
Qed.

Theorem jac_mag_squared a b :
  bin_der (fun x y => x * x + y * y) a b (2 * a) (2 * b).
Proof. bd_start. auto_derive; [repeat split; auto|]. qd_subst. ring. Qed.

(* ================= D. the generated operator bodies over the reals ================= *)
Lemma dyad00 : dyad RNum 0 0 = 0.
Proof. cbn [dyad RNum]. simpl. ring. Qed.
Lemma dyad10 : dyad RNum 1 0 = 1.
Proof. cbn [dyad RNum]. simpl. ring. Qed.

Lemma fabs_c_R x : fabs_c RCNum x = Rabs x.
Proof.
  unfold fabs_c. cbn [cN RCNum ltb RNum neg]. rewrite dyad00. unfold Rltb, Rabs.
  destruct (Rlt_dec x 0), (Rcase_abs x); auto; lra.
Qed.

Lemma div_nz c d : c <> 0 -> c * c + d * d <> 0 -> c + d * (d / c) <> 0.
Proof.
  intros Hc Hn. replace (c + d * (d / c)) with ((c * c + d * d) / c) by (field; auto).
  unfold Rdiv. apply Rmult_integral_contrapositive_currified; auto. apply Rinv_neq_0_compat; auto.
Qed.

(* _Py_c_quot over the reals is the quotient, and raises exactly for a zero divisor *)
Lemma c_quot_R a b c d : c * c + d * d <> 0 ->
  c_quot RCNum (a, b) (c, d) = Ok (div_re a b c d, div_im a b c d).
Proof.
  intros Hn. unfold c_quot. cbn [fst snd]. rewrite !fabs_c_R.
  cbn [cN RCNum leb eqb div add sub mul RNum T]. rewrite dyad00.
  unfold Rleb, Reqb, R_div.
  destruct (Rle_dec (Rabs d) (Rabs c)) as [Hle|Hle].
  - assert (Hc : c <> 0).
    { intros ->. rewrite Rabs_R0 in Hle. pose proof (Rabs_pos d). assert (Rabs d = 0) by lra.
      apply Rabs_eq_0 in H0 || (destruct (Req_dec d 0) as [->|Hd]; [|apply Rabs_no_R0 in Hd; lra]); try subst; nra. }
    destruct (Req_EM_T (Rabs c) 0) as [E|_]; [apply Rabs_no_R0 in Hc; tauto|].
    destruct (Req_EM_T c 0); [tauto|]. cbn [bind].
    pose proof (div_nz c d Hc Hn) as Hd.
    destruct (Req_EM_T (c + d * (d / c)) 0); [tauto|]. cbn [bind].
    unfold div_re, div_im. f_equal. f_equal; field; auto.
  - assert (Hd : d <> 0).
    { intros ->. rewrite Rabs_R0 in Hle. apply Hle. apply Rabs_pos. }
    destruct (Rle_dec (Rabs c) (Rabs d)) as [Hle2|Hle2].
    2:{ exfalso. lra. }
    destruct (Req_EM_T d 0); [tauto|]. cbn [bind].
    assert (Hn' : d * d + c * c <> 0) by (intros E; apply Hn; lra).
    pose proof (div_nz d c Hd Hn') as Hd2.
    assert (Hd3 : c * (c / d) + d <> 0) by (intros E; apply Hd2; lra).
    destruct (Req_EM_T (c * (c / d) + d) 0); [tauto|]. cbn [bind].
    unfold div_re, div_im. f_equal. f_equal; field; auto.
Qed.

Lemma c_quot_R_ok a b c d q : c_quot RCNum (a, b) (c, d) = Ok q -> c * c + d * d <> 0.
Proof.
  intros H E. assert (c = 0 /\ d = 0) as [-> ->] by (split; nra).
  unfold c_quot in H. cbn [fst snd] in H. rewrite !fabs_c_R in H.
  cbn [cN RCNum leb eqb RNum T] in H. rewrite dyad00, Rabs_R0 in H. unfold Rleb, Reqb in H.
  destruct (Rle_dec 0 0); [|lra]. destruct (Req_EM_T 0 0); [discriminate|tauto].
Qed.

Section Ops.
  Variable U : key -> R.
  Variable I : key -> bool.
  Variable e0 : env.
  Notation Den := (Den U I e0).

  (* what the other operand of a binary operation denotes: a pair of real functions *)
  Definition oth_den (oth : cother RCNum) (Fc Fd : env -> R) : Prop :=
    match oth with
    | OthC ore oim => Den ore Fc /\ Den oim Fd
    | OthR o => Den o Fc /\ Fd = (fun _ => 0)
    | OthN x => Fc = (fun _ => fst (widen RCNum x)) /\ Fd = (fun _ => snd (widen RCNum x))
    | OthNone => False
    end.
  Definition oth_val (oth : cother RCNum) : RC :=
    match oth with
    | OthC ore oim => (ux ore, ux oim)
    | OthR o => (ux o, 0)
    | OthN x => widen RCNum x
    | OthNone => (0, 0)
    end.

  Lemma oth_den_val oth Fc Fd : oth_den oth Fc Fd -> oth_val oth = (Fc e0, Fd e0).
  Proof.
    destruct oth as [ore oim|o|x|]; simpl; try tauto.
    - intros [H1 H2]. rewrite (den_val _ _ _ _ _ H1), (den_val _ _ _ _ _ H2); auto.
    - intros [H1 ->]. rewrite (den_val _ _ _ _ _ H1); auto.
    - intros [-> ->]. destruct (widen RCNum x); auto.
  Qed.

  (* the weights that matter for an assembler: those of its uncertain operands *)
  Definition wt_ok (k : bikind) (f : R -> R -> R -> R -> R) (p q r s x0 x1 y0 y1 : R) : Prop :=
    match k with
    | K_uc_uc => quad_der f p q r s x0 x1 y0 y1
    | K_uc_ur => exists w, quad_der f p q r s x0 x1 y0 w
    | K_uc_n => exists w w', quad_der f p q r s x0 x1 w w'
    | K_ur_uc => exists w, quad_der f p q r s x0 w y0 y1
    | K_n_uc => exists w w', quad_der f p q r s w w' y0 y1
    end.

  Definition self_is_lhs (k : bikind) : bool :=
    match k with K_uc_uc | K_uc_ur | K_uc_n => true | _ => false end.

  Lemma assemble_sound k sre sim oth (z : rpyn) (dl dr : rjac) re im Fa Fb Fc Fd
        (fre fim : R -> R -> R -> R -> R) :
    Den sre Fa -> Den sim Fb -> oth_den oth Fc Fd ->
    assemble RCNum k sre sim oth z dl dr = Ok (re, im) ->
    let '(p, q, r, s) := if self_is_lhs k then (ux sre, ux sim, fst (oth_val oth), snd (oth_val oth))
                         else (fst (oth_val oth), snd (oth_val oth), ux sre, ux sim) in
    n_real RCNum z = fre p q r s -> n_imag RCNum z = fim p q r s ->
    wt_ok k fre p q r s (J0 dl) (J1 dl) (J0 dr) (J1 dr) ->
    wt_ok k fim p q r s (J2 dl) (J3 dl) (J2 dr) (J3 dr) ->
    if self_is_lhs k then
      Den re (fun e => fre (Fa e) (Fb e) (Fc e) (Fd e)) /\ Den im (fun e => fim (Fa e) (Fb e) (Fc e) (Fd e))
    else
      Den re (fun e => fre (Fc e) (Fd e) (Fa e) (Fb e)) /\ Den im (fun e => fim (Fc e) (Fd e) (Fa e) (Fb e)).
  Proof.
    intros Ha Hb Ho Hasm.
    destruct k, oth as [ore oim|o|x|]; simpl in Hasm; try discriminate; injection Hasm as <- <-;
      cbn [self_is_lhs oth_val fst snd wt_ok]; simpl in Ho.
    - destruct Ho as [Hc Hd]. intros Vr Vi Wr Wi. apply den_uc_uc; auto.
    - destruct Ho as [Hc ->]. intros Vr Vi [w Wr] [w' Wi]. eapply den_uc_ur; eauto.
    - destruct Ho as [-> ->]. intros Vr Vi [w [w' Wr]] [w1 [w1' Wi]]. eapply den_uc_n; eauto.
    - destruct Ho as [Hc ->]. intros Vr Vi [w Wr] [w' Wi]. eapply den_ur_uc; eauto.
    - destruct Ho as [-> ->]. intros Vr Vi [w [w' Wr]] [w1 [w1' Wi]]. eapply den_n_uc; eauto.
    Unshelve. all: first [exact dr | exact 0].
  Qed.
End Ops.

(* ---------- refuted: root of the product vs product of the roots (acosh) ---------- *)
Lemma acosh_roots_refuted :
  exists x : RC,
    let p := csqrt_R (cmul_R (csub_R x (1, 0)) (cadd_R x (1, 0))) in
    let q := cmul_R (csqrt_R (csub_R x (1, 0))) (csqrt_R (cadd_R x (1, 0))) in
    snd p < 0 /\ 0 < snd q.
Proof.
  exists (-2, 1). cbv zeta. unfold csub_R, cadd_R, cmul_R, csqrt_R, cabs_R, sgn_R. cbn [fst snd].
  replace (-2 - 1) with (-3) by ring. replace (1 - 0) with 1 by ring.
  replace (-2 + 1) with (-1) by ring. replace (1 + 0) with 1 by ring.
  replace (-3 * -1 - 1 * 1) with 2 by ring. replace (-3 * 1 + 1 * -1) with (-4) by ring.
  destruct (Rlt_dec (-4) 0) as [_|n]; [|lra]. destruct (Rlt_dec 1 0) as [n|_]; [lra|].
  assert (H20 : 2 < sqrt (2 * 2 + -4 * -4)).
  { rewrite <- (sqrt_square 2) at 1 by lra. apply sqrt_lt_1; lra. }
  assert (H10 : 3 < sqrt (-3 * -3 + 1 * 1)).
  { rewrite <- (sqrt_square 3) at 1 by lra. apply sqrt_lt_1; lra. }
  assert (H2 : 1 < sqrt (-1 * -1 + 1 * 1)).
  { rewrite <- (sqrt_square 1) at 1 by lra. apply sqrt_lt_1; lra. }
  split.
  - assert (0 < sqrt ((sqrt (2 * 2 + -4 * -4) - 2) / 2)) by (apply sqrt_lt_R0; lra). lra.
  - assert (A1 : 0 <= sqrt ((sqrt (-3 * -3 + 1 * 1) + -3) / 2)) by apply sqrt_pos.
    assert (A2 : 0 < sqrt ((sqrt (-3 * -3 + 1 * 1) - -3) / 2)) by (apply sqrt_lt_R0; lra).
    assert (A3 : 0 < sqrt ((sqrt (-1 * -1 + 1 * 1) + -1) / 2)) by (apply sqrt_lt_R0; lra).
    assert (A4 : 0 < sqrt ((sqrt (-1 * -1 + 1 * 1) - -1) / 2)) by (apply sqrt_lt_R0; lra).
    nra.
Qed.

(* KFactor.v -- support for the model of GTC/reporting.py's coverage-factor functions
   (k_factor, k2_factor_sq, k_to_dof, k2_to_dof, _df_k2).

   The function bodies themselves are NOT written here: they are regenerated from the
   source AST on every run by tools/tr_reporting.py into gen/Gen_reporting.v
   (g_k_factor, g_k2_factor_sq, g_k_to_dof, g_k2_to_dof, g__df_k2, g_inf_dof), written
   against the vocabulary of this file:

   * [ext A]: a float that may be Python's [inf] (degrees of freedom).  Over binary64 a
     [PInf] behaves exactly as the float infinity; over the reals it is a separate point.
   * [Scipy N]: the external functions the code calls (scipy.special.stdtrit, ndtri,
     stdtridf, fdtr, fdtri; scipy.optimize.ridder) as oracles, plus the three facts
     about comparing with +inf that cannot be expressed inside [Num].
   * [FScipy tbl]: the binary64 instance - a finite table recorded from the
     implementation run (a miss is Err OracleMissing, i.e. a harness error).
   The instance over the reals is built in KFactorFacts.v from Section variables. *)
From Coq Require Import ZArith List Bool.
From Coq Require Import PrimFloat FloatOps SpecFloat.
From GTCV Require Import Num FNum.
Import ListNotations.

Inductive ext (A : Type) := Fin (a : A) | PInf.
Arguments Fin {A} a.
Arguments PInf {A}.

Record Scipy (N : Num) := {
  sp_stdtrit  : T N -> T N -> res (T N);          (* stdtrit(df, p)  *)
  sp_ndtri    : T N -> res (T N);                 (* ndtri(p)        *)
  sp_stdtridf : T N -> T N -> res (T N);          (* stdtridf(p, t)  *)
  sp_fdtr     : T N -> T N -> T N -> res (T N);   (* fdtr(dfn, dfd, x)  *)
  sp_fdtri    : T N -> T N -> T N -> res (T N);   (* fdtri(dfn, dfd, p) *)
  sp_ridder   : (T N -> res (T N)) -> T N -> T N -> res (T N);   (* ridder(f, a, b) *)
  lt_inf : T N -> bool;                           (* a <  +inf *)
  le_inf : T N -> bool                            (* a <= +inf *)
}.
Arguments sp_stdtrit {N} s _ _.
Arguments sp_ndtri {N} s _.
Arguments sp_stdtridf {N} s _ _.
Arguments sp_fdtr {N} s _ _ _.
Arguments sp_fdtri {N} s _ _ _.
Arguments sp_ridder {N} s _ _ _.
Arguments lt_inf {N} s _.
Arguments le_inf {N} s _.

Section Ext.
  Variable N : Num.
  Variable O : Scipy N.

  (* the float a Python expression sees when it does arithmetic on a dof *)
  Definition x_val (x : ext (T N)) : T N :=
    match x with Fin a => a | PInf => c_inf N end.

  (* a < x   (Python: x > a) *)
  Definition x_ltb (a : T N) (x : ext (T N)) : bool :=
    match x with Fin b => ltb N a b | PInf => lt_inf O a end.
  (* a <= x  (Python: x >= a) *)
  Definition x_leb (a : T N) (x : ext (T N)) : bool :=
    match x with Fin b => leb N a b | PInf => le_inf O a end.
  (* x + b *)
  Definition x_add (x : ext (T N)) (b : T N) : ext (T N) :=
    match x with Fin a => Fin (add N a b) | PInf => PInf end.
End Ext.

(* ---------------- the binary64 oracle ---------------- *)
Inductive sfn := S_stdtrit | S_ndtri | S_stdtridf | S_fdtr | S_fdtri | S_ridder.

Definition sfn_eqb (a b : sfn) : bool :=
  match a, b with
  | S_stdtrit, S_stdtrit | S_ndtri, S_ndtri | S_stdtridf, S_stdtridf
  | S_fdtr, S_fdtr | S_fdtri, S_fdtri | S_ridder, S_ridder => true
  | _, _ => false
  end.

Definition sentry := (sfn * list float * res float)%type.

Fixpoint s_lookup (tbl : list sentry) (f : sfn) (args : list float) : res float :=
  match tbl with
  | [] => Err OracleMissing
  | (g, a, r) :: tbl' => if sfn_eqb f g && args_eqb args a then r else s_lookup tbl' f args
  end.

(* ridder is looked up by its bracket; the function argument is what the code passes,
   the recorded result is what scipy returned for it on the implementation run *)
Definition FScipy (ltbl : list oracle_entry) (tbl : list sentry) : Scipy (FNum ltbl) :=
  Build_Scipy (FNum ltbl)
    (fun a b : float => s_lookup tbl S_stdtrit [a; b])
    (fun a : float => s_lookup tbl S_ndtri [a])
    (fun a b : float => s_lookup tbl S_stdtridf [a; b])
    (fun a b c : float => s_lookup tbl S_fdtr [a; b; c])
    (fun a b c : float => s_lookup tbl S_fdtri [a; b; c])
    (fun (_ : float -> res float) (a b : float) => s_lookup tbl S_ridder [a; b])
    (fun a : float => PrimFloat.ltb a infinity)
    (fun a : float => PrimFloat.leb a infinity).

(* comparison of a model result with what the implementation returned (binary64 only):
   -1 agreement, 1 different value, 2 different exception, 3 value vs exception *)
Definition ext_float (x : ext float) : float :=
  match x with Fin a => a | PInf => infinity end.

Definition cmp_res (got : res (ext float)) (want : res float) : Z :=
  match got, want with
  | Ok g, Ok w => if fbits_eqb (ext_float g) w then (-1)%Z else 1%Z
  | Err e, Err e' => if exn_eqb e e' then (-1)%Z else 2%Z
  | _, _ => 3%Z
  end.

(* CacheValid.v -- C10, the positive half: in every state reached by a history in which no
   correlation is declared after an uncertain number was read (or declared intermediate),
   every cached uncertainty equals what a fresh evaluation in the CURRENT state gives, so what
   a number reports is a function of its components and of the leaf attributes / correlations
   currently registered -- not of the history.  For every number instance.
   (The other half -- a correlation declared after a read leaves a stale cache -- is the
   refutation in HistoryR.v.) *)
From Coq Require Import ZArith List Bool Lia.
From GTCV Require Import Num Vector VectorFacts Opres KTypes Kernel History Invariant Frame.
Import ListNotations.

Section CacheValid.
  Variable N : Num.
  Notation V := (T N).
  Notation ureal := (KTypes.ureal V).
  Notation state := (KTypes.state V).
  Notation leaf := (KTypes.leaf V).
  Notation inode := (KTypes.inode V).
  Notation slot := (KTypes.slot V).
  Notation vec := (list (key * V)).
  Notation lookup := (@Invariant.lookup).

  (* ---------- every leaf's ensemble id is allocated ---------- *)
  Definition ens_wf (s : state) : Prop :=
    forall k l, leaf_of N s k = Ok l -> l_ens l < length (s_ens s).

  Lemma leaf_of_lookup s k l : leaf_of N s k = Ok l <-> lookup _ (s_leaves s) k = Some l.
  Proof.
    unfold leaf_of, Invariant.lookup. destruct (assoc (s_leaves s) k); split; intros H; try discriminate; congruence.
  Qed.

  Lemma node_of_lookup s k n : node_of N s k = Ok n <-> lookup _ (s_nodes s) k = Some n.
  Proof.
    unfold node_of, Invariant.lookup. destruct (assoc (s_nodes s) k); split; intros H; try discriminate; congruence.
  Qed.

  Lemma ens_wf_same s s' : s_leaves s' = s_leaves s -> s_ens s' = s_ens s -> ens_wf s -> ens_wf s'.
  Proof. intros HL HE W k l H. unfold leaf_of in H. rewrite HL in H. rewrite HE. exact (W k l H). Qed.

  (* ---------- frames of the elementary state updates ---------- *)
  Lemma frame_push s sl : frame N s (push N s sl).
  Proof. apply frame_same; reflexivity. Qed.

  Lemma frame_set_cache s j o c : frame N s (set_cache N s j o c).
  Proof. apply frame_same; reflexivity. Qed.

  Lemma frame_fail s e : frame N s (fst (fail N s e)).
  Proof. apply frame_push. Qed.

  Lemma nth_app_default (ens : list (list key)) i e :
    i < length ens -> nth i (ens ++ [e]) [] = nth i ens [].
  Proof. intros H. apply app_nth1. exact H. Qed.

  (* a new leaf at the end of the table, a new ensemble at the end of the ensemble list *)
  Lemma frame_add_leaf s k lf e :
    ens_wf s ->
    frame N s (mkS (s_ctx s) (snd k) (s_ni s) (s_leaves s ++ [(k, lf)]) (s_nodes s) (s_ens s ++ [e]) (s_slots s)).
  Proof.
    intros W. split.
    - intros k0 l H. exists l. split; [|split; [apply lrel_refl|]].
      + apply leaf_of_lookup. cbn [s_leaves]. apply lookup_app_some. apply leaf_of_lookup. exact H.
      + unfold ens_of. cbn [s_ens]. apply nth_app_default. exact (W k0 l H).
    - intros k0 n H. exists n. auto.
  Qed.

  Lemma ens_wf_add_leaf s k lf e :
    ens_wf s -> l_ens lf = length (s_ens s) -> lookup _ (s_leaves s) k = None ->
    ens_wf (mkS (s_ctx s) (snd k) (s_ni s) (s_leaves s ++ [(k, lf)]) (s_nodes s) (s_ens s ++ [e]) (s_slots s)).
  Proof.
    intros W He Hn k0 l H. cbn [s_ens]. rewrite app_length; cbn [length].
    apply leaf_of_lookup in H. cbn [s_leaves] in H.
    destruct (lookup _ (s_leaves s) k0) as [l0|] eqn:E0.
    - rewrite (lookup_app_some _ _ _ _ E0) in H. injection H as <-.
      assert (l_ens l0 < length (s_ens s)) by (apply (W k0); apply leaf_of_lookup; exact E0). lia.
    - rewrite (lookup_app_none _ _ _ _ E0) in H. destruct (keqb k0 k); [|discriminate].
      injection H as <-. lia.
  Qed.

  Lemma frame_add_node s k nd ni :
    frame N s (mkS (s_ctx s) (s_ne s) ni (s_leaves s) (s_nodes s ++ [(k, nd)]) (s_ens s) (s_slots s)).
  Proof.
    split.
    - intros k0 l H. exists l. split; [exact H|]. split; [apply lrel_refl|reflexivity].
    - intros k0 n H. exists n. split; [|auto].
      apply node_of_lookup. cbn [s_nodes]. apply lookup_app_some. apply node_of_lookup. exact H.
  Qed.

  (* replacing a leaf by one with the same report-relevant fields and the same ensemble id *)
  Lemma frame_update_leaf s k l1 l2 :
    lookup _ (s_leaves s) k = Some l1 -> lrel N l1 l2 -> l_ens l2 = l_ens l1 ->
    frame N s (set_leaves N s (assoc_set (s_leaves s) k l2)).
  Proof.
    intros H1 R E. split.
    - intros k0 l H. destruct (keqb k0 k) eqn:Ek.
      + apply keqb_eq in Ek. subst k0. apply leaf_of_lookup in H. rewrite H1 in H. injection H as <-.
        exists l2. split; [|split; [exact R|]].
        * apply leaf_of_lookup. cbn [set_leaves s_leaves]. apply lookup_set_same.
        * unfold ens_of. cbn [set_leaves s_ens]. rewrite E. reflexivity.
      + exists l. split; [|split; [apply lrel_refl|reflexivity]].
        apply leaf_of_lookup. cbn [set_leaves s_leaves]. rewrite lookup_set_other by exact Ek.
        apply leaf_of_lookup. exact H.
    - intros k0 n H. exists n. auto.
  Qed.

  Lemma ens_wf_update_leaf s k l1 l2 :
    lookup _ (s_leaves s) k = Some l1 -> l_ens l2 = l_ens l1 -> ens_wf s ->
    ens_wf (set_leaves N s (assoc_set (s_leaves s) k l2)).
  Proof.
    intros H1 E W k0 l H. cbn [set_leaves s_ens]. apply leaf_of_lookup in H. cbn [set_leaves s_leaves] in H.
    destruct (keqb k0 k) eqn:Ek.
    - apply keqb_eq in Ek. subst k0. rewrite lookup_set_same in H. injection H as <-. rewrite E.
      apply (W k). apply leaf_of_lookup. exact H1.
    - rewrite lookup_set_other in H by exact Ek. apply (W k0). apply leaf_of_lookup. exact H.
  Qed.

  (* ---------- declarations ---------- *)
  Hypothesis eqb_one : eqb N (one N) (one N) = true.

  (* G s: the well-formedness invariant of Invariant.v plus allocated ensemble ids *)
  Definition G (s : state) : Prop := Inv N s /\ ens_wf s.

  Lemma elementary_frame s x u df lb ind s' o :
    G s -> elementary N s x u df lb ind = Ok (s', o) ->
    frame N s s' /\ G s' /\ (forall k, unode o = LeafRef k -> leaf_of N s k = Err KeyError).
  Proof.
    intros [HI W] H. pose proof (elementary_inv N eqb_one s x u df lb ind s' o HI H) as (HI' & _ & _).
    pose proof (fresh_leaf N s (proj1 HI)) as Hf.
    unfold elementary in H. destruct df as [| |d]; [|discriminate|].
    - cbn in H. destruct (ltb N u (zero N)); [discriminate|]. injection H as <- <-.
      split; [apply (frame_add_leaf s (s_ctx s, (s_ne s + 1)%Z)); exact W|]. split.
      + split; [exact HI'|]. apply (ens_wf_add_leaf s (s_ctx s, (s_ne s + 1)%Z)); auto.
      + intros k Hk. assert (k = (s_ctx s, (s_ne s + 1)%Z)) by (destruct ind; cbn in Hk; congruence). subst k.
        unfold leaf_of. unfold Invariant.lookup in Hf. rewrite Hf. reflexivity.
    - destruct (ltb N d (one N)); [discriminate|]. destruct (ltb N u (zero N)); [discriminate|].
      injection H as <- <-.
      split; [apply (frame_add_leaf s (s_ctx s, (s_ne s + 1)%Z)); exact W|]. split.
      + split; [exact HI'|]. apply (ens_wf_add_leaf s (s_ctx s, (s_ne s + 1)%Z)); auto.
      + intros k Hk. assert (k = (s_ctx s, (s_ne s + 1)%Z)) by (destruct ind; cbn in Hk; congruence). subst k.
        unfold leaf_of. unfold Invariant.lookup in Hf. rewrite Hf. reflexivity.
  Qed.

  Lemma ureal_decl_frame s x u df lb ind s' o :
    G s -> ureal_decl N s x u df lb ind = Ok (s', o) ->
    frame N s s' /\ G s' /\ (forall k, unode o = LeafRef k -> leaf_of N s k = Err KeyError).
  Proof.
    intros HG H. unfold ureal_decl in H.
    destruct (is_nan N x || is_inf N x); [discriminate|].
    destruct (ltb N u (zero N) || is_inf N u || is_nan N u); [discriminate|].
    destruct (match df with DFin d => ltb N d (one N) || is_nan N d | DNaN => true | DInf => false end); [discriminate|].
    destruct (eqb N u (zero N)).
    - injection H as <- <-. split; [apply frame_refl|]. split; [exact HG|]. intros k Hk; discriminate.
    - eapply elementary_frame; eauto.
  Qed.

  (* a leaf missing in s0 cannot have appeared in a state s0 frames into... the other way round:
     if s0 frames into s and s has no leaf at k, neither has s0 *)
  Lemma frame_no_leaf s0 s k : frame N s0 s -> leaf_of N s k = Err KeyError -> leaf_of N s0 k = Err KeyError.
  Proof.
    intros F H. destruct (leaf_of N s0 k) as [l|e] eqn:E.
    - destruct (proj1 F k l E) as [l' [E' _]]. congruence.
    - unfold leaf_of in E. destruct (assoc (s_leaves s0) k); [discriminate|]. congruence.
  Qed.

  Lemma multiple_decl_frame xs : forall s0 s us df acc s' os,
    frame N s0 s -> G s ->
    (forall o k, In o acc -> unode o = LeafRef k -> leaf_of N s0 k = Err KeyError) ->
    multiple_decl N s xs us df acc = Ok (s', os) ->
    frame N s0 s' /\ G s' /\ (forall o k, In o os -> unode o = LeafRef k -> leaf_of N s0 k = Err KeyError).
  Proof.
    induction xs as [|x xs IH]; intros s0 s us df acc s' os F HG Hacc H; destruct us as [|u us]; cbn [multiple_decl] in H;
      try discriminate.
    - injection H as <- <-. split; [exact F|]. split; [exact HG|].
      intros o k Hin. apply Hacc. apply in_rev. exact Hin.
    - destruct (ureal_decl N s x u df None false) as [[s1 o1]|e] eqn:E; cbn [bind] in H; [|discriminate].
      destruct (ureal_decl_frame s x u df None false s1 o1 HG E) as (F1 & G1 & Fr).
      apply (IH s0 s1 us df (o1 :: acc) s' os); auto.
      + eapply frame_trans; eauto.
      + intros o k [<-|Hin] Hk; [|eapply Hacc; eauto].
        apply (frame_no_leaf s0 s k F). apply Fr. exact Hk.
  Qed.

  Lemma decl_prefix_frame xs : forall s us df,
    G s ->
    let s' := ((fix go (st : state) (xs us : list V) : state :=
            match xs, us with
            | x :: xs', u :: us' =>
                match ureal_decl N st x u df None false with
                | Ok (st', _) => go st' xs' us'
                | Err _ => st
                end
            | _, _ => st
            end) s xs us) in
    frame N s s' /\ G s'.
  Proof.
    induction xs as [|x xs IH]; intros s us df HG; destruct us as [|u us]; cbn zeta; try (split; [apply frame_refl|exact HG]).
    destruct (ureal_decl N s x u df None false) as [[s1 o1]|e] eqn:E; [|split; [apply frame_refl|exact HG]].
    destruct (ureal_decl_frame s x u df None false s1 o1 HG E) as (F1 & G1 & _).
    destruct (IH s1 us df G1) as [F2 G2]. split; [eapply frame_trans; eauto|exact G2].
  Qed.

  (* ---------- real_ensemble ---------- *)
  Lemma kinsert_in k k0 l : In k (kinsert k0 l) -> k = k0 \/ In k l.
  Proof.
    induction l as [|k' l IH]; cbn [kinsert].
    - intros [<-|[]]; auto.
    - destruct (kcmp k0 k'); cbn [In]; intros H.
      + auto.
      + destruct H as [<-|H]; auto.
      + destruct H as [<-|H]; auto. destruct (IH H); auto.
  Qed.

  Lemma ens_keys_in (os : list ureal) : forall acc k,
    In k (fold_left (fun acc o => match unode o with LeafRef k => kinsert k acc | _ => acc end) os acc) ->
    In k acc \/ exists o, In o os /\ unode o = LeafRef k.
  Proof.
    induction os as [|o os IH]; intros acc k H; cbn [fold_left] in H; [auto|].
    destruct (IH _ _ H) as [Hin|[o' [Ho' Hk]]].
    - destruct (unode o) as [| |k1|k1] eqn:Eo; auto.
      destruct (kinsert_in _ _ _ Hin) as [->|]; auto. right. exists o. split; [left; reflexivity|exact Eo].
    - right. exists o'. split; [right; exact Ho'|exact Hk].
  Qed.

  Lemma set_leaf_ens_frame s0 s k eid :
    frame N s0 s -> leaf_of N s0 k = Err KeyError -> frame N s0 (set_leaf_ens N s k eid).
  Proof.
    intros F Hn. unfold set_leaf_ens. destruct (assoc (s_leaves s) k) as [l|] eqn:E; [|exact F].
    split; [|exact (proj2 F)].
    intros k0 l0 H0. destruct (proj1 F k0 l0 H0) as [l' [H' [R En]]].
    assert (Ek : keqb k0 k = false).
    { destruct (keqb k0 k) eqn:Ek; [|reflexivity]. apply keqb_eq in Ek. subst k0. congruence. }
    exists l'. split; [|split; [exact R|exact En]].
    apply leaf_of_lookup. cbn [set_leaves s_leaves]. rewrite lookup_set_other by exact Ek.
    apply leaf_of_lookup. exact H'.
  Qed.

  Lemma set_leaf_ens_wf s k eid : eid < length (s_ens s) -> ens_wf s -> ens_wf (set_leaf_ens N s k eid).
  Proof.
    intros He W. unfold set_leaf_ens. destruct (assoc (s_leaves s) k) as [l|] eqn:E; [|exact W].
    intros k0 l0 H0. cbn [set_leaves s_ens]. apply leaf_of_lookup in H0. cbn [set_leaves s_leaves] in H0.
    destruct (keqb k0 k) eqn:Ek.
    - apply keqb_eq in Ek. subst k0. rewrite lookup_set_same in H0. injection H0 as <-. exact He.
    - rewrite lookup_set_other in H0 by exact Ek. apply (W k0). apply leaf_of_lookup. exact H0.
  Qed.

  Lemma set_leaf_ens_ens s k eid : s_ens (set_leaf_ens N s k eid) = s_ens s.
  Proof. unfold set_leaf_ens. destruct (assoc (s_leaves s) k); reflexivity. Qed.

  Lemma real_ensemble_frame s0 s os :
    frame N s0 s -> G s ->
    (forall o k, In o os -> unode o = LeafRef k -> leaf_of N s0 k = Err KeyError) ->
    frame N s0 (real_ensemble N s os) /\ G (real_ensemble N s os).
  Proof.
    intros F [HI W] Hos. split; [|split; [apply real_ensemble_inv; exact HI|]].
    - unfold real_ensemble.
      set (ks := fold_left _ os []).
      assert (Hks : forall k, In k ks -> leaf_of N s0 k = Err KeyError).
      { intros k Hk. destruct (ens_keys_in os [] k Hk) as [[]|[o [Ho Hk']]]. eapply Hos; eauto. }
      set (s1 := mkS _ _ _ _ _ _ _).
      assert (F1 : frame N s0 s1).
      { split; [|exact (proj2 F)]. intros k0 l0 H0. destruct (proj1 F k0 l0 H0) as [l' [H' [R En]]].
        exists l'. split; [exact H'|]. split; [exact R|]. rewrite <- En. unfold ens_of, s1. cbn [s_ens].
        apply nth_app_default. exact (W k0 l' H'). }
      clearbody s1. revert s1 F1. generalize (length (s_ens s)). induction ks as [|k ks IH]; intros eid s1 F1; cbn [fold_left]; [exact F1|].
      apply IH; [intros; apply Hks; right; assumption|].
      apply set_leaf_ens_frame; [exact F1|apply Hks; left; reflexivity].
    - unfold real_ensemble.
      set (ks := fold_left _ os []). set (s1 := mkS _ _ _ _ _ _ _).
      assert (W1 : ens_wf s1).
      { intros k l H. unfold s1 in *. cbn [s_ens]. rewrite app_length; cbn [length].
        assert (l_ens l < length (s_ens s)) by (apply (W k); exact H). lia. }
      assert (L1 : length (s_ens s) < length (s_ens s1)) by (unfold s1; cbn [s_ens]; rewrite app_length; cbn [length]; lia).
      clearbody s1. revert s1 W1 L1. generalize (length (s_ens s)). induction ks as [|k ks IH]; intros eid s1 W1 L1; cbn [fold_left]; [exact W1|].
      apply IH; [apply set_leaf_ens_wf; assumption | rewrite set_leaf_ens_ens; exact L1].
  Qed.

  (* ---------- cached uncertainties ---------- *)
  (* the two ways the implementation fills the cache: sqrt of std_variance_real (u, v, and df of
     an all-infinite-dof number) and sqrt of the Welch-Satterthwaite variance (df) *)
  Definition fresh_u (s : state) (o : ureal) (u : V) : Prop :=
    (exists v, std_variance_real N s o = Ok v /\ libm1 N F_sqrt v = Ok u) \/
    (exists cv d, welch_satterthwaite N s o None = Ok (cv, d, None) /\ libm1 N F_sqrt cv = Ok u).

  Definition valid (s : state) (o : ureal) (c : option V) : Prop :=
    match c with None => True | Some u => fresh_u s o u end.

  Definition caches_valid (s : state) : Prop :=
    forall i o c, nth_error (s_slots s) i = Some (SReal o c) -> valid s o c.

  Definition unread (s : state) : Prop :=
    forall i o c, nth_error (s_slots s) i = Some (SReal o c) -> c = None.

  Lemma valid_frame s s' o c : frame N s s' -> valid s o c -> valid s' o c.
  Proof.
    intros F. destruct c as [u|]; [|auto]. intros [[v [Hv Hs]]|[cv [d [Hw Hs]]]].
    - left. exists v. split; [apply (std_variance_frame N s s' F); exact Hv|exact Hs].
    - right. exists cv, d. split; [apply (welch_frame N s s' F); exact Hw|exact Hs].
  Qed.

  Lemma prop_u_valid s o c u c' : valid s o c -> prop_u N s o c = Ok (u, c') -> valid s o c'.
  Proof.
    intros Hv H. unfold prop_u in H. destruct (node_u N s o) as [[nu|]|e]; cbn [bind] in H; try discriminate.
    - injection H as _ <-. exact Hv.
    - destruct c as [cu|]; [injection H as _ <-; exact Hv|].
      destruct (std_variance_real N s o) as [v|e] eqn:Ev; cbn [bind] in H; [|discriminate].
      destruct (libm1 N F_sqrt v) as [r|e] eqn:Es; cbn [bind] in H; [|discriminate].
      injection H as _ <-. left. exists v. auto.
  Qed.

  Lemma prop_v_valid s o c u c' : valid s o c -> prop_v N s o c = Ok (u, c') -> valid s o c'.
  Proof.
    intros Hv H. unfold prop_v in H. destruct (node_u N s o) as [[nu|]|e]; cbn [bind] in H; try discriminate.
    - injection H as _ <-. exact Hv.
    - destruct c as [cu|]; [injection H as _ <-; exact Hv|].
      destruct (std_variance_real N s o) as [v|e] eqn:Ev; cbn [bind] in H; [|discriminate].
      destruct (libm1 N F_sqrt v) as [r|e] eqn:Es; cbn [bind] in H; [|discriminate].
      injection H as _ <-. left. exists v. auto.
  Qed.

  (* the cache welch_satterthwaite hands back is the one it was given, or one prop_v filled *)
  Lemma prop_v_none s o c v : prop_v N s o c = Ok (v, None) -> c = None.
  Proof.
    unfold prop_v. destruct (node_u N s o) as [[nu|]|e]; cbn [bind]; try discriminate.
    - intros H; injection H as _ <-. reflexivity.
    - destruct c as [cu|]; [intros H; injection H as _ H'; discriminate|reflexivity].
  Qed.

  Ltac crunch H :=
    repeat (cbn [bind] in H;
      match type of H with
      | Ok _ = Ok _ => fail 1
      | Err _ = Ok _ => discriminate H
      | bind (prop_v _ _ _ _) _ = _ => fail 1
      | bind ?m _ = _ => destruct m as [?|?]
      | (if ?b then _ else _) = _ => destruct b
      | (let '(_, _) := ?p in _) = _ => destruct p
      | match ?m with _ => _ end = _ => destruct m
      end).

  Lemma welch_cache s o c cv d c1 :
    welch_satterthwaite N s o c = Ok (cv, d, c1) ->
    (valid s o c -> valid s o c1) /\ (c1 = None -> c = None).
  Proof.
    intros H. unfold welch_satterthwaite in H.
    destruct (unode o) as [| |k|k]; crunch H;
      try (injection H as _ _ <-; split; auto; fail);
      (destruct (prop_v N s o c) as [[v c']|e] eqn:Ev; cbn [bind] in H; [|discriminate H];
       injection H as _ _ <-; split; [intros Hc; eapply prop_v_valid; eauto | intros ->; eapply prop_v_none; eauto]).
  Qed.

  Lemma prop_df_valid s o c d c' : valid s o c -> prop_df N s o c = Ok (d, c') -> valid s o c'.
  Proof.
    intros Hv H. unfold prop_df in H.
    assert (K : forall (m : res (V * dfval V * option V)),
              m = welch_satterthwaite N s o c ->
              (' (cv, d0, c1) <- m ;;
               match c1 with Some _ => Ok (d0, c1) | None => u <- libm1 N F_sqrt cv ;; Ok (d0, Some u) end) = Ok (d, c') ->
              valid s o c').
    { intros m Em Hm. destruct m as [[[cv d0] c1]|e]; cbn [bind] in Hm; [|discriminate].
      symmetry in Em. destruct (welch_cache s o c cv d0 c1 Em) as [Hval Hnone].
      destruct c1 as [u1|].
      - injection Hm as _ <-. apply Hval. exact Hv.
      - destruct (libm1 N F_sqrt cv) as [u|e] eqn:Es; cbn [bind] in Hm; [|discriminate].
        injection Hm as _ <-. rewrite (Hnone eq_refl) in Em. right. exists cv, d0. auto. }
    destruct (unode o) as [| |k|k].
    - eapply K; [reflexivity|exact H].
    - eapply K; [reflexivity|exact H].
    - destruct (leaf_of N s k); cbn [bind] in H; [|discriminate]. injection H as _ <-. exact Hv.
    - destruct (node_of N s k); cbn [bind] in H; [|discriminate]. injection H as _ <-. exact Hv.
  Qed.

  (* ---------- slots ---------- *)
  Lemma cv_frame s s' : frame N s s' -> s_slots s' = s_slots s -> caches_valid s -> caches_valid s'.
  Proof. intros F E C i o c H. rewrite E in H. eapply valid_frame; [exact F|]. exact (C i o c H). Qed.

  Lemma cv_push s sl :
    caches_valid s -> (forall o c, sl = SReal o c -> valid s o c) -> caches_valid (push N s sl).
  Proof.
    intros C Hn i o c H. apply (valid_frame s); [apply frame_push|].
    unfold push in H; cbn [s_slots] in H.
    destruct (Nat.lt_ge_cases i (length (s_slots s))) as [Hi|Hi].
    - rewrite nth_error_app1 in H by exact Hi. exact (C i o c H).
    - rewrite nth_error_app2 in H by exact Hi.
      destruct (i - length (s_slots s)) as [|n]; cbn in H; [|destruct n; discriminate].
      injection H as ->. apply Hn. reflexivity.
  Qed.

  Lemma cv_push_other s sl :
    caches_valid s -> (forall o c, sl <> SReal o c) -> caches_valid (push N s sl).
  Proof. intros C Hn. apply cv_push; [exact C|]. intros o c E. destruct (Hn o c E). Qed.

  Lemma cv_push_new s o : caches_valid s -> caches_valid (push N s (SReal o None)).
  Proof. intros C. apply cv_push; [exact C|]. intros o' c' E. injection E as <- <-. exact I. Qed.

  Lemma cv_fail s e : caches_valid s -> caches_valid (fst (fail N s e)).
  Proof. intros C. apply cv_push_other; [exact C|]. intros o c; discriminate. Qed.

  Lemma cv_set_cache s j o c' :
    caches_valid s -> valid s o c' -> caches_valid (set_cache N s j o c').
  Proof.
    intros C Hv i o0 c0 H. apply (valid_frame s); [apply frame_set_cache|].
    unfold set_cache in H; cbn [s_slots] in H. rewrite nth_set_nth in H.
    destruct (Nat.eqb i j).
    - destruct (nth_error (s_slots s) i); [|discriminate]. injection H as <- <-. exact Hv.
    - exact (C i o0 c0 H).
  Qed.

  Lemma cv_finish s v ia ib : caches_valid s -> caches_valid (fst (finish_opval N s v ia ib)).
  Proof.
    intros C. unfold finish_opval. destruct v as [[o|[|]|x|]|e]; cbn [fst].
    - apply cv_push_new; exact C.
    - apply cv_push_other; [exact C|intros; discriminate].
    - apply cv_push_other; [exact C|intros; discriminate].
    - apply cv_push_other; [exact C|intros; discriminate].
    - apply cv_fail; exact C.
    - apply cv_fail; exact C.
  Qed.

  Lemma fold_push_cv os : forall s, caches_valid s ->
    caches_valid (fold_left (fun st ob => push N st (SReal ob None)) os s).
  Proof. induction os as [|o os IH]; intros s C; cbn [fold_left]; [exact C|]. apply IH. apply cv_push_new. exact C. Qed.

  Lemma fold_push_leaves os : forall s,
    let s' := fold_left (fun st ob => push N st (SReal ob None)) os s in
    s_leaves s' = s_leaves s /\ s_ens s' = s_ens s /\ s_nodes s' = s_nodes s.
  Proof. induction os as [|o os IH]; intros s; cbn [fold_left]; [auto|]. destruct (IH (push N s (SReal o None))) as (A & B & C). auto. Qed.

  Lemma cv_repr_effect s i : caches_valid s -> caches_valid (fst (repr_effect N s i)).
  Proof.
    intros C. unfold repr_effect. destruct (get_real N s i) as [[[j o] c]|e] eqn:Eg; [|exact C].
    pose proof (get_real_slot N _ _ _ _ _ Eg) as Hslot.
    destruct (prop_u N s o c) as [[u c1]|e] eqn:Eu; [|exact C].
    assert (V1 : valid s o c1) by (eapply prop_u_valid; [exact (C _ _ _ Hslot)|exact Eu]).
    assert (C1 : caches_valid (set_cache N s j o c1)) by (apply cv_set_cache; assumption).
    destruct (prop_df N (set_cache N s j o c1) o c1) as [[d c2]|e] eqn:Ed; cbn [fst]; [|exact C1].
    apply cv_set_cache; [exact C1|].
    eapply prop_df_valid; [|exact Ed]. apply (valid_frame s); [apply frame_set_cache|exact V1].
  Qed.

  Lemma repr_effect_tables s i :
    let s' := fst (repr_effect N s i) in
    s_leaves s' = s_leaves s /\ s_ens s' = s_ens s /\ s_nodes s' = s_nodes s.
  Proof.
    unfold repr_effect. destruct (get_real N s i) as [[[j o] c]|e]; [|auto].
    destruct (prop_u N s o c) as [[u c1]|e]; [|auto].
    destruct (prop_df N (set_cache N s j o c1) o c1) as [[d c2]|e]; cbn [fst]; auto.
  Qed.

  (* ---------- set_correlation keeps ensemble ids allocated ---------- *)
  Lemma set_correlation_real_ens_wf s r a b s' :
    ens_wf s -> set_correlation_real N s r a b = Ok s' -> ens_wf s'.
  Proof.
    intros W. unfold set_correlation_real. destruct (unode a) as [| |k1|k1], (unode b) as [| |k2|k2]; try discriminate.
    destruct (leaf_of N s k1) as [l1|] eqn:E1; [|discriminate].
    destruct (leaf_of N s k2) as [l2|] eqn:E2; [|discriminate]. cbn [bind].
    destruct (negb (l_indep l1) && negb (l_indep l2)); [|discriminate].
    destruct (keqb k1 k2 && negb (eqb N r (one N))); [discriminate|].
    destruct (negb (leb N (nabs N r) (one N))); [discriminate|].
    set (l1' := mkLeaf _ _ _ _ _ _ _).
    destruct (assoc (assoc_set (s_leaves s) k1 l1') k2) as [l2b|] eqn:E3; [|discriminate].
    cbn [bind]. intros H; injection H as <-.
    assert (W1 : ens_wf (set_leaves N s (assoc_set (s_leaves s) k1 l1'))).
    { apply (ens_wf_update_leaf s k1 l1 l1'); [apply leaf_of_lookup; exact E1|reflexivity|exact W]. }
    set (s1 := set_leaves N s (assoc_set (s_leaves s) k1 l1')) in *.
    change (ens_wf (set_leaves N s1 (assoc_set (s_leaves s1) k2
              (mkLeaf (l_u l2b) (l_df l2b) (l_indep l2b) (assoc_set (l_corr l2b) k1 r) (l_ens l2b) (l_cplx l2b) (l_label l2b))))).
    apply (ens_wf_update_leaf s1 k2 l2b); [exact E3|reflexivity|exact W1].
  Qed.

  Lemma set_correlation_ens_wf s r a b s' :
    ens_wf s -> set_correlation N s r a b = Ok s' -> ens_wf s'.
  Proof.
    intros W. unfold set_correlation. destruct (eqb N r (zero N)); [intros H; injection H as <-; exact W|].
    destruct (unode a) as [|la|ka|ka] eqn:Ua; try discriminate;
      destruct (unode b) as [|lb|kb|kb] eqn:Ub; try discriminate;
      (destruct (node_df N s a) as [d1|]; [|discriminate]); cbn [bind];
      (destruct (if df_is_inf N d1 then (d2 <- node_df N s b;; Ok (df_is_inf N d2)) else Ok false) as [bi|]; [|discriminate]);
      cbn [bind]; (destruct bi; [apply set_correlation_real_ens_wf; exact W|]); try discriminate;
      (destruct (leaf_of N s ka) as [l1|]; [|discriminate]); cbn [bind];
      (destruct (l_indep l1); [discriminate|]); try discriminate;
      (destruct (kmem kb (ens_of N s l1)); [apply set_correlation_real_ens_wf; exact W|discriminate]).
  Qed.

  Lemma unread_valid s : unread s -> caches_valid s.
  Proof. intros U i o c H. rewrite (U i o c H). exact I. Qed.

  (* ---------- the theorem ---------- *)
  Definition quiet_here (s : state) (o : op V) : Prop :=
    match o with OpSetCorr _ _ _ => unread s | _ => True end.

  Definition CV (s : state) : Prop := G s /\ caches_valid s.

  Ltac tables_same := first [reflexivity | assumption].

  Theorem step_valid s o : CV s -> quiet_here s o -> CV (fst (step N s o)).
  Proof.
    intros [[HI W] C] Q.
    assert (HI' : Inv N (fst (step N s o))) by (apply step_preserves_Inv; assumption).
    split; [split; [exact HI'|]|]; clear HI'.
    - (* ensemble ids stay allocated *)
      destruct o; cbn [step].
      + destruct (ureal_decl N s x u df label indep) as [[s' obj]|e] eqn:E; cbn [fst].
        * destruct (ureal_decl_frame s x u df label indep s' obj (conj HI W) E) as (_ & [_ W'] & _).
          eapply ens_wf_same; [| |exact W']; reflexivity.
        * eapply ens_wf_same; [| |exact W]; reflexivity.
      + eapply ens_wf_same; [| |exact W]; reflexivity.
      + destruct (negb (Nat.eqb (length xs) (length us))); [eapply ens_wf_same; [| |exact W]; reflexivity|].
        destruct (multiple_decl N s xs us df []) as [[s' objs]|e] eqn:E; cbn [fst].
        * destruct (multiple_decl_frame xs s s us df [] s' objs (frame_refl N s) (conj HI W)) as (F1 & G1 & Fr); [intros o k []|exact E|].
          destruct (real_ensemble_frame s s' (filter (fun o => negb (is_constant N o)) objs) F1 G1) as [_ [_ W2]].
          { intros o k Hin. apply Fr. apply filter_In in Hin. tauto. }
          destruct (fold_push_leaves objs (real_ensemble N s' (filter (fun o => negb (is_constant N o)) objs))) as (A & B & _).
          eapply ens_wf_same; [exact A|exact B|exact W2].
        * destruct (decl_prefix_frame xs s us df (conj HI W)) as [_ [_ W2]].
          eapply ens_wf_same; [| |exact W2]; reflexivity.
      + destruct (get_real N s a) as [[[ja oa] c]|e]; [|eapply ens_wf_same; [| |exact W]; reflexivity].
        unfold finish_opval. destruct (apply_un N f oa) as [[o|[|]|x|]|e]; cbn [fst fail]; (eapply ens_wf_same; [| |exact W]; reflexivity).
      + assert (K : forall v ia ib, ens_wf (fst (finish_opval N s v ia ib))).
        { intros v ia ib. unfold finish_opval. destruct v as [[o|[|]|x|]|e]; cbn [fst fail]; (eapply ens_wf_same; [| |exact W]; reflexivity). }
        destruct a as [a|va], b as [b|vb].
        * destruct (get_real N s a) as [[[ja oa] c]|e], (get_real N s b) as [[[jb ob] c']|e'];
            try (eapply ens_wf_same; [| |exact W]; reflexivity). apply K.
        * destruct (get_real N s a) as [[[ja oa] c]|e]; [apply K|eapply ens_wf_same; [| |exact W]; reflexivity].
        * destruct (get_real N s b) as [[[jb ob] c]|e]; [apply K|eapply ens_wf_same; [| |exact W]; reflexivity].
        * eapply ens_wf_same; [| |exact W]; reflexivity.
      + (* OpResult *)
        destruct (get_real N s a) as [[[ja oa] c]|e]; [|eapply ens_wf_same; [| |exact W]; reflexivity].
        destruct (unode oa) as [| |k|k].
        * match goal with |- context [prop_u N ?s1 oa c] => destruct (prop_u N s1 oa c) as [[u c1]|e] end;
            [|eapply ens_wf_same; [| |exact W]; reflexivity].
          match goal with |- context [prop_df N ?s2 oa c1] => destruct (prop_df N s2 oa c1) as [[d c2]|e] end;
            cbn [fst fail]; (eapply ens_wf_same; [| |exact W]; reflexivity).
        * match goal with |- context [prop_u N ?s1 oa c] => destruct (prop_u N s1 oa c) as [[u c1]|e] end;
            [|eapply ens_wf_same; [| |exact W]; reflexivity].
          match goal with |- context [prop_df N ?s2 oa c1] => destruct (prop_df N s2 oa c1) as [[d c2]|e] end;
            cbn [fst fail]; (eapply ens_wf_same; [| |exact W]; reflexivity).
        * cbn [fst]. destruct label as [lb|]; [|eapply ens_wf_same; [| |exact W]; reflexivity].
          destruct (assoc (s_leaves s) k) as [l|] eqn:El; [|eapply ens_wf_same; [| |exact W]; reflexivity].
          destruct (l_label l); [eapply ens_wf_same; [| |exact W]; reflexivity|].
          eapply ens_wf_same; [| |apply (ens_wf_update_leaf s k l); [exact El| |exact W]]; reflexivity.
        * eapply ens_wf_same; [| |exact W]; reflexivity.
      + (* OpSetCorr *)
        destruct (get_real N s a) as [[[ja oa] c]|e], (get_real N s b) as [[[jb ob] c']|e'];
          try (eapply ens_wf_same; [| |exact W]; reflexivity).
        destruct (set_correlation N s r oa ob) as [s'|e] eqn:E; cbn [fst].
        * eapply ens_wf_same; [| |eapply set_correlation_ens_wf; [exact W|exact E]]; reflexivity.
        * destruct e; try (eapply ens_wf_same; [| |exact W]; reflexivity).
          destruct (repr_effect_tables s a) as (A1 & B1 & _).
          destruct (repr_effect N s a) as [s1 [e1|]] eqn:E1; cbn [fst] in A1, B1.
          -- eapply ens_wf_same; [| |exact W]; cbn [fail push fst s_leaves s_ens]; assumption.
          -- destruct (repr_effect_tables s1 b) as (A2 & B2 & _).
             destruct (repr_effect N s1 b) as [s2 [e2|]] eqn:E2; cbn [fst] in A2, B2;
               (eapply ens_wf_same; [| |exact W]; cbn [fail push fst s_leaves s_ens]; congruence).
      + (* OpRead *)
        destruct at_.
        * destruct (get_real N s a) as [[[ja oa] c]|e]; (eapply ens_wf_same; [| |exact W]; reflexivity).
        * destruct (get_real N s a) as [[[ja oa] c]|e]; [|eapply ens_wf_same; [| |exact W]; reflexivity].
          destruct (prop_u N s oa c) as [[u c1]|e]; (eapply ens_wf_same; [| |exact W]; reflexivity).
        * destruct (get_real N s a) as [[[ja oa] c]|e]; [|eapply ens_wf_same; [| |exact W]; reflexivity].
          destruct (prop_v N s oa c) as [[u c1]|e]; (eapply ens_wf_same; [| |exact W]; reflexivity).
        * destruct (get_real N s a) as [[[ja oa] c]|e]; [|eapply ens_wf_same; [| |exact W]; reflexivity].
          destruct (prop_df N s oa c) as [[u c1]|e]; (eapply ens_wf_same; [| |exact W]; reflexivity).
      + destruct (get_real N s y) as [[[jy oy] c]|e], (get_real N s x) as [[[jx ox] c']|e'];
          try (eapply ens_wf_same; [| |exact W]; reflexivity).
        destruct (sensitivity N s oy ox) as [v|e]; [eapply ens_wf_same; [| |exact W]; reflexivity|].
        destruct e; try (eapply ens_wf_same; [| |exact W]; reflexivity).
        destruct (repr_effect_tables s x) as (A1 & B1 & _).
        destruct (repr_effect N s x) as [s1 [e1|]]; cbn [fst] in A1, B1;
          (eapply ens_wf_same; [| |exact W]; cbn [fail push fst s_leaves s_ens]; assumption).
      + destruct (get_real N s y) as [[[jy oy] c]|e], (get_real N s x) as [[[jx ox] c']|e'];
          try (eapply ens_wf_same; [| |exact W]; reflexivity).
        destruct (u_component N s oy ox); (eapply ens_wf_same; [| |exact W]; reflexivity).
      + destruct (get_real N s a) as [[[ja oa] c]|e], (get_real N s b) as [[[jb ob] c']|e'];
          try (eapply ens_wf_same; [| |exact W]; reflexivity).
        destruct (get_covariance_real N s oa ob); (eapply ens_wf_same; [| |exact W]; reflexivity).
      + destruct (get_real N s a) as [[[ja oa] c]|e], (get_real N s b) as [[[jb ob] c']|e'];
          try (eapply ens_wf_same; [| |exact W]; reflexivity).
        destruct (get_correlation_real N s oa ob); (eapply ens_wf_same; [| |exact W]; reflexivity).
    - (* every cache is what a fresh evaluation in the new state gives *)
      destruct o; cbn [step].
      + destruct (ureal_decl N s x u df label indep) as [[s' obj]|e] eqn:E; cbn [fst]; [|apply cv_fail; exact C].
        destruct (ureal_decl_frame s x u df label indep s' obj (conj HI W) E) as (F & _ & _).
        apply cv_push_new. eapply cv_frame; [exact F|eapply ureal_decl_slots; exact E|exact C].
      + apply cv_push_new. exact C.
      + destruct (negb (Nat.eqb (length xs) (length us))); [apply cv_fail; exact C|].
        destruct (multiple_decl N s xs us df []) as [[s' objs]|e] eqn:E; cbn [fst].
        * destruct (multiple_decl_frame xs s s us df [] s' objs (frame_refl N s) (conj HI W)) as (F1 & G1 & Fr); [intros o k []|exact E|].
          destruct (real_ensemble_frame s s' (filter (fun o => negb (is_constant N o)) objs) F1 G1) as [F2 _].
          { intros o k Hin. apply Fr. apply filter_In in Hin. tauto. }
          apply fold_push_cv. eapply cv_frame; [exact F2| |exact C].
          rewrite real_ensemble_slots. eapply multiple_decl_slots; exact E.
        * destruct (decl_prefix_frame xs s us df (conj HI W)) as [F2 _].
          apply cv_fail. eapply cv_frame; [exact F2|apply decl_prefix_slots|exact C].
      + destruct (get_real N s a) as [[[ja oa] c]|e]; [apply cv_finish; exact C|apply cv_fail; exact C].
      + destruct a as [a|va], b as [b|vb].
        * destruct (get_real N s a) as [[[ja oa] c]|e], (get_real N s b) as [[[jb ob] c']|e'];
            try (apply cv_fail; exact C). apply cv_finish; exact C.
        * destruct (get_real N s a) as [[[ja oa] c]|e]; [apply cv_finish; exact C|apply cv_fail; exact C].
        * destruct (get_real N s b) as [[[jb ob] c]|e]; [apply cv_finish; exact C|apply cv_fail; exact C].
        * apply cv_fail; exact C.
      + (* OpResult *)
        destruct (get_real N s a) as [[[ja oa] c]|e] eqn:Eg; [|apply cv_fail; exact C].
        pose proof (get_real_slot N _ _ _ _ _ Eg) as Hslot.
        assert (R : forall s1, s_leaves s1 = s_leaves s -> s_ens s1 = s_ens s -> s_nodes s1 = s_nodes s ->
                    s_slots s1 = s_slots s ->
                    forall k lb,
                    caches_valid (fst (match prop_u N s1 oa c with
                      | Err e => fail N s1 e
                      | Ok (u, c1) =>
                          let s2 := set_cache N s1 ja oa c1 in
                          match prop_df N s2 oa c1 with
                          | Err e => fail N s2 e
                          | Ok (d, c2) =>
                              let s3 := set_cache N s2 ja oa c2 in
                              let s4 := mkS (s_ctx s3) (s_ne s3) (s_ni s3) (s_leaves s3)
                                            (s_nodes s3 ++ [(k, mkNode u d lb)]) (s_ens s3) (s_slots s3) in
                              let obj := mkU (ux oa) (uc oa) (dc oa) (merge (N:=N) (ic oa) [(k, u)]) (NodeRef k) in
                              (push N s4 (SReal obj None), dump N obj)
                          end
                      end))).
        { intros s1 A B D Es k lb.
          assert (C1 : caches_valid s1) by (eapply cv_frame; [apply frame_same; eassumption|exact Es|exact C]).
          assert (Hs1 : nth_error (s_slots s1) ja = Some (SReal oa c)) by (rewrite Es; exact Hslot).
          destruct (prop_u N s1 oa c) as [[u c1]|e] eqn:Eu; [|apply cv_fail; exact C1].
          assert (V1 : valid s1 oa c1) by (eapply prop_u_valid; [exact (C1 _ _ _ Hs1)|exact Eu]).
          assert (C2 : caches_valid (set_cache N s1 ja oa c1)) by (apply cv_set_cache; assumption).
          cbn zeta.
          destruct (prop_df N (set_cache N s1 ja oa c1) oa c1) as [[d c2]|e] eqn:Ed; [|apply cv_fail; exact C2].
          assert (V2 : valid (set_cache N s1 ja oa c1) oa c2).
          { eapply prop_df_valid; [|exact Ed]. apply (valid_frame s1); [apply frame_set_cache|exact V1]. }
          assert (C3 : caches_valid (set_cache N (set_cache N s1 ja oa c1) ja oa c2)) by (apply cv_set_cache; assumption).
          cbn [fst]. apply cv_push_new.
          apply (cv_frame (set_cache N (set_cache N s1 ja oa c1) ja oa c2)); [apply frame_add_node|reflexivity|exact C3]. }
        destruct (unode oa) as [| |k|k].
        * apply R; reflexivity.
        * apply R; reflexivity.
        * cbn [fst]. apply cv_push_other; [|intros; discriminate].
          destruct label as [lb|]; [|exact C].
          destruct (assoc (s_leaves s) k) as [l|] eqn:El; [|exact C].
          destruct (l_label l); [exact C|].
          apply (cv_frame s); [|reflexivity|exact C].
          apply (frame_update_leaf s k l); [exact El| |reflexivity]. repeat split.
        * apply cv_push_other; [exact C|intros; discriminate].
      + (* OpSetCorr: only when nothing has been read yet *)
        cbn [quiet_here] in Q.
        destruct (get_real N s a) as [[[ja oa] c]|e], (get_real N s b) as [[[jb ob] c']|e'];
          try (apply cv_fail; exact C).
        destruct (set_correlation N s r oa ob) as [s'|e] eqn:E; cbn [fst].
        * apply cv_push_other; [|intros; discriminate]. apply unread_valid.
          intros i o c0 H. rewrite (set_correlation_slots N s r oa ob s' E) in H. exact (Q i o c0 H).
        * destruct e; try (apply cv_fail; exact C).
          pose proof (cv_repr_effect s a C) as C1.
          destruct (repr_effect N s a) as [s1 [e1|]] eqn:E1; cbn [fst] in C1; [apply cv_fail; exact C1|].
          pose proof (cv_repr_effect s1 b C1) as C2.
          destruct (repr_effect N s1 b) as [s2 [e2|]] eqn:E2; cbn [fst] in C2; apply cv_fail; exact C2.
      + (* OpRead *)
        destruct at_.
        * destruct (get_real N s a) as [[[ja oa] c]|e]; [apply cv_push_other; [exact C|intros; discriminate]|apply cv_fail; exact C].
        * destruct (get_real N s a) as [[[ja oa] c]|e] eqn:Eg; [|apply cv_fail; exact C].
          pose proof (get_real_slot N _ _ _ _ _ Eg) as Hslot.
          destruct (prop_u N s oa c) as [[u c1]|e] eqn:Eu; [|apply cv_fail; exact C]. cbn [fst].
          apply cv_push_other; [|intros; discriminate]. apply cv_set_cache; [exact C|].
          eapply prop_u_valid; [exact (C _ _ _ Hslot)|exact Eu].
        * destruct (get_real N s a) as [[[ja oa] c]|e] eqn:Eg; [|apply cv_fail; exact C].
          pose proof (get_real_slot N _ _ _ _ _ Eg) as Hslot.
          destruct (prop_v N s oa c) as [[u c1]|e] eqn:Eu; [|apply cv_fail; exact C]. cbn [fst].
          apply cv_push_other; [|intros; discriminate]. apply cv_set_cache; [exact C|].
          eapply prop_v_valid; [exact (C _ _ _ Hslot)|exact Eu].
        * destruct (get_real N s a) as [[[ja oa] c]|e] eqn:Eg; [|apply cv_fail; exact C].
          pose proof (get_real_slot N _ _ _ _ _ Eg) as Hslot.
          destruct (prop_df N s oa c) as [[u c1]|e] eqn:Eu; [|apply cv_fail; exact C]. cbn [fst].
          apply cv_push_other; [|intros; discriminate]. apply cv_set_cache; [exact C|].
          eapply prop_df_valid; [exact (C _ _ _ Hslot)|exact Eu].
      + destruct (get_real N s y) as [[[jy oy] c]|e], (get_real N s x) as [[[jx ox] c']|e']; try (apply cv_fail; exact C).
        destruct (sensitivity N s oy ox) as [v|e]; [apply cv_push_other; [exact C|intros; discriminate]|].
        destruct e; try (apply cv_fail; exact C).
        pose proof (cv_repr_effect s x C) as C1.
        destruct (repr_effect N s x) as [s1 [e1|]]; cbn [fst] in C1; apply cv_fail; exact C1.
      + destruct (get_real N s y) as [[[jy oy] c]|e], (get_real N s x) as [[[jx ox] c']|e']; try (apply cv_fail; exact C).
        destruct (u_component N s oy ox); [apply cv_push_other; [exact C|intros; discriminate]|apply cv_fail; exact C].
      + destruct (get_real N s a) as [[[ja oa] c]|e], (get_real N s b) as [[[jb ob] c']|e']; try (apply cv_fail; exact C).
        destruct (get_covariance_real N s oa ob); [apply cv_push_other; [exact C|intros; discriminate]|apply cv_fail; exact C].
      + destruct (get_real N s a) as [[[ja oa] c]|e], (get_real N s b) as [[[jb ob] c']|e']; try (apply cv_fail; exact C).
        destruct (get_correlation_real N s oa ob); [apply cv_push_other; [exact C|intros; discriminate]|apply cv_fail; exact C].
  Qed.

  (* ---------- histories ---------- *)
  Fixpoint quiet_run (s : state) (p : list (op V)) : Prop :=
    match p with
    | [] => True
    | o :: p' => quiet_here s o /\ quiet_run (fst (step N s o)) p'
    end.

  Theorem run_valid p : forall s, CV s -> quiet_run s p -> CV (fst (run N s p)).
  Proof.
    induction p as [|o p IH]; intros s HC Q; cbn [run]; [exact HC|].
    destruct Q as [Q1 Q2].
    pose proof (step_valid s o HC Q1) as H1.
    destruct (step N s o) as [s1 r] eqn:E1. cbn [fst] in *.
    specialize (IH s1 H1 Q2). destruct (run N s1 p) as [s2 rs]. exact IH.
  Qed.

  Definition no_set_correlation (p : list (op V)) : Prop :=
    forall o, In o p -> match o with OpSetCorr _ _ _ => False | _ => True end.

  Lemma quiet_of_no_set_correlation p : forall s, no_set_correlation p -> quiet_run s p.
  Proof.
    induction p as [|o p IH]; intros s H; cbn [quiet_run]; [exact I|]. split.
    - specialize (H o (or_introl eq_refl)). destruct o; cbn [quiet_here]; try exact I. destruct H.
    - apply IH. intros o' Ho'. apply H. right. exact Ho'.
  Qed.

  Lemma CV_init ctx : CV (init N ctx).
  Proof.
    split; [split; [apply Inv_init|]|].
    - intros k l H. unfold leaf_of, init in H. cbn in H. discriminate.
    - intros i o c H. unfold init in H. cbn [s_slots] in H. destruct i; discriminate.
  Qed.

  (* what is reported: with valid caches, the uncertainty read from any number that is not an
     elementary or declared-intermediate one is the result of a fresh evaluation in the current state *)
  Theorem reported_u_is_fresh s i j o c u c' :
    CV s -> get_real N s i = Ok (j, o, c) -> prop_u N s o c = Ok (u, c') ->
    node_u N s o = Ok None -> fresh_u s o u.
  Proof.
    intros [_ C] Hg Hu Hn. pose proof (get_real_slot N _ _ _ _ _ Hg) as Hslot.
    pose proof (C _ _ _ Hslot) as Hv.
    unfold prop_u in Hu. rewrite Hn in Hu. cbn [bind] in Hu. destruct c as [cu|].
    - injection Hu as <- _. exact Hv.
    - destruct (std_variance_real N s o) as [v|e] eqn:Ev; cbn [bind] in Hu; [|discriminate].
      destruct (libm1 N F_sqrt v) as [r|e] eqn:Es; cbn [bind] in Hu; [|discriminate].
      injection Hu as <- _. left. exists v. auto.
  Qed.

  (* ... and it does not depend on what was read before: clearing the cache gives the same
     answer up to the choice between the two summation orders the implementation uses *)
  Theorem reported_u_history_free s i j o c u c' :
    CV s -> get_real N s i = Ok (j, o, c) -> prop_u N s o c = Ok (u, c') ->
    node_u N s o = Ok None ->
    prop_u N s o None = Ok (u, Some u) \/
    (exists cv d, welch_satterthwaite N s o None = Ok (cv, d, None) /\ libm1 N F_sqrt cv = Ok u).
  Proof.
    intros HC Hg Hu Hn. destruct (reported_u_is_fresh s i j o c u c' HC Hg Hu Hn) as [[v [Hv Hs]]|H]; [left|right; exact H].
    unfold prop_u. rewrite Hn. cbn [bind]. rewrite Hv. cbn [bind]. rewrite Hs. reflexivity.
  Qed.
End CacheValid.

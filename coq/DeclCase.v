(* DeclCase.v -- support for the generated correspondence case files of property C11: a case is
   a context id, the libm oracle table recorded on the implementation (math.sqrt inside
   core.ucomplex), a program of declaration-layer operations and the observations the
   implementation produced.  run_dcase evaluates the FNum model and returns -1 for agreement or
   the index of the first differing step. *)
From Coq Require Import ZArith List PrimFloat.
From GTCV Require Import Num FNum Vector Opres KTypes Kernel DeclTypes Decl.
Import ListNotations.

Definition dcase := (Z * list oracle_entry * list (dop float) * list (dout float))%type.

Definition run_dcase (c : dcase) : Z :=
  let '(ctx, tbl, prog, expected) := c in
  let N := FNum tbl in
  match dfirst_mismatch N 0 (snd (drun N (dinit N ctx) prog)) expected with
  | None => (-1)%Z
  | Some i => Z.of_nat i
  end.

(* the model's own output at a given step, for diagnosis *)
Definition dmodel_out (c : dcase) (i : nat) : option (dout float) :=
  let '(ctx, tbl, prog, _) := c in
  let N := FNum tbl in nth_error (snd (drun N (dinit N ctx) prog)) i.

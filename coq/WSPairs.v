(* WSPairs.v -- C05: the Welch-Satterthwaite loop over dependent components, now INCLUDING the
   real/imaginary pair of an elementary uncertain complex number.  When the two components of a
   dependent elementary complex number (declared without an ensemble) are adjacent in the
   dependent vector, the loop keeps the real part's term open (`finish_complex`) and adds the
   pair's covariance term and the imaginary part's squared component to the SAME term: the pair
   is one Welch-Satterthwaite term  v = u_re^2 + 2 u_re r u_im + u_im^2  with the pair's dof.
   Everything else is as in WSGroups.v (ensembles, infinite-dof correlations).  For vectors of
   any length and any interleaving of pairs, ensemble members and single inputs. *)
From Coq Require Import ZArith List Bool Reals Lia Lra Psatz.
From GTCV Require Import Num RNum Vector VectorFacts Opres KTypes Kernel LPU WS WSGroups.
Import ListNotations.
Local Open Scope R_scope.

Lemma mkW_eq (v1 v2 : R) l1 l2 (m1 m2 : cmapR) f1 f2 :
  v1 = v2 -> l1 = l2 -> m1 = m2 -> f1 = f2 -> mkW RNum v1 l1 m1 f1 = mkW RNum v2 l2 m2 f2.
Proof. intros; subst; reflexivity. Qed.

Lemma cons_term_eq (x y : R) (d : dfv) l : x = y -> (x, d) :: l = (y, d) :: l.
Proof. intros; subst; reflexivity. Qed.

Ltac wsolve := cbn [mul add two of_Z RNum T] in *; unfold two, vi in *; cbn [of_Z RNum] in *;
               first [reflexivity | ring | (apply cons_term_eq; ring)].

Section Pairs.
  Variable s : state.

  Definition leaf_cplx (k : key) : option (key * key) :=
    match leaf_of RNum s k with Ok l => l_cplx l | Err _ => None end.

  (* what the pair contributes to its list term besides the two squares *)
  Definition pcov (kr : key) (ur : R) (ki : key) (ui : R) : R :=
    match leaf_corr s kr ki with
    | Some r => if both_inf s kr ki then 0 else 2 * ur * r * ui
    | None => 0
    end.

  (* all correlations of k with the later elements join two infinite-dof inputs *)
  Definition later_inf (k : key) (rest : rvecs) : Prop :=
    forall kj uj r, In (kj, uj) rest -> leaf_corr s k kj = Some r ->
                    (exists l, leaf_of RNum s kj = Ok l) /\ both_inf s k kj = true.

  Inductive okc : rvecs -> Prop :=
  | okc_nil : okc []
  | okc_one k u rest :
      (exists l, leaf_of RNum s k = Ok l /\ l_cplx l = None) ->
      (forall k_j u_j r, In (k_j, u_j) rest -> leaf_corr s k k_j = Some r ->
                         (exists l, leaf_of RNum s k_j = Ok l) /\
                         (both_inf s k k_j = true \/ kmem k_j (leaf_ens s k) = true)) ->
      okc rest -> okc ((k, u) :: rest)
  | okc_pair kr ur ki ui rest lr li :
      leaf_of RNum s kr = Ok lr -> leaf_of RNum s ki = Ok li ->
      l_cplx lr = Some (kr, ki) -> l_cplx li = Some (kr, ki) -> kr <> ki ->
      leaf_ens s kr = [] -> leaf_ens s ki = [] ->
      later_inf kr rest -> later_inf ki rest ->
      okc rest -> okc ((kr, ur) :: (ki, ui) :: rest).

  (* the specification of (cpts_lst, cpts_map) *)
  Fixpoint groups_c (d : rvecs) (st : list (R * dfv) * cmapR) : list (R * dfv) * cmapR :=
    match d with
    | [] => st
    | (k, u) :: rest =>
        let E := leaf_ens s k in let df := leaf_df s k in
        match rest with
        | [] => if cmap_mem RNum (snd st) E then (fst st, add_inc (snd st) (E, df, vi u))
                else ((vi u, df) :: fst st, snd st)
        | (k2, u2) :: rest2 =>
            if pair_eqb (k, k2) (leaf_cplx k) then
              groups_c rest2 ((vi u + pcov k u k2 u2 + vi u2, df) :: fst st, snd st)
            else
              match E with
              | [] => groups_c rest ((vi u, df) :: fst st, fold_left add_inc (inner_incs s k u rest) (snd st))
              | _ :: _ => groups_c rest (fst st, fold_left add_inc ((E, df, vi u) :: inner_incs s k u rest) (snd st))
              end
        end
    end.

  Lemma groups_c_pair kr ur ki ui rest st :
    leaf_cplx kr = Some (kr, ki) ->
    groups_c ((kr, ur) :: (ki, ui) :: rest) st =
    groups_c rest ((vi ur + pcov kr ur ki ui + vi ui, leaf_df s kr) :: fst st, snd st).
  Proof.
    intros H. cbn [groups_c]. rewrite H. unfold pair_eqb. cbn [fst snd]. rewrite !keqb_refl. reflexivity.
  Qed.

  (* ---------- the inner loop when every correlation with a later element is infinite-dof ---------- *)
  Lemma ws_inner_inf k_i l_i u_i ens_i rest : forall (a : wsaccR),
    leaf_of RNum s k_i = Ok l_i -> later_inf k_i rest ->
    ws_inner RNum s k_i l_i u_i ens_i rest a =
    Ok (mkW RNum (w_var RNum a + fold_right Rplus 0 (map (covar s k_i u_i) rest))
            (w_lst RNum a) (w_map RNum a) (w_fin RNum a)).
  Proof.
    induction rest as [|[k_j u_j] rest IH]; intros a Hl Hinf.
    - simpl. destruct a; simpl. f_equal. f_equal. cbn [T RNum] in *. ring.
    - cbn [ws_inner].
      assert (Hcorr : leaf_corr s k_i k_j = Kernel.assoc (l_corr l_i) k_j) by (unfold leaf_corr; rewrite Hl; reflexivity).
      assert (Hinf' : later_inf k_i rest) by (intros k u r Hin Hc; eapply Hinf; eauto; right; exact Hin).
      cbn [map fold_right]. unfold covar at 1. cbn [fst snd]. rewrite Hcorr.
      destruct (Kernel.assoc (l_corr l_i) k_j) as [r|] eqn:Er.
      + destruct (Hinf k_j u_j r (or_introl eq_refl) Hcorr) as [[l_j Hlj] Hb].
        rewrite Hlj. cbn [bind].
        assert (Hbi : both_inf s k_i k_j = df_is_inf RNum (l_df l_i) && df_is_inf RNum (l_df l_j)).
        { unfold both_inf, leaf_df. rewrite Hl, Hlj. reflexivity. }
        rewrite <- Hbi, Hb. rewrite IH by assumption. cbn [w_var w_lst w_map w_fin]. f_equal. f_equal.
        cbn [mul add two of_Z RNum T]. unfold two; cbn [of_Z RNum]. ring.
      + rewrite IH by assumption. f_equal. f_equal. cbn [T RNum]. ring.
  Qed.

  Lemma no_nil_false (m : cmapR) : no_nil_key m -> cmap_mem RNum m [] = false.
  Proof. intros H; exact H. Qed.

  (* ---------- a complex pair: two steps of the outer loop ---------- *)
  Lemma ws_pair_step kr ur ki ui rest lr li (a : wsaccR) :
    leaf_of RNum s kr = Ok lr -> leaf_of RNum s ki = Ok li ->
    l_cplx lr = Some (kr, ki) -> l_cplx li = Some (kr, ki) -> kr <> ki ->
    leaf_ens s kr = [] -> leaf_ens s ki = [] ->
    later_inf kr rest -> later_inf ki rest ->
    w_fin RNum a = false -> no_nil_key (w_map RNum a) ->
    exists f,
      (a1 <- ws_elem RNum s kr ur ((ki, ui) :: rest) a ;; ws_elem RNum s ki ui rest a1) =
      Ok (mkW RNum (w_var RNum a + (vi ur + fold_right Rplus 0 (map (covar s kr ur) ((ki, ui) :: rest)))
                              + (vi ui + fold_right Rplus 0 (map (covar s ki ui) rest)))
              ((vi ur + pcov kr ur ki ui + vi ui, leaf_df s kr) :: w_lst RNum a)
              (w_map RNum a) f) /\
      (rest <> [] -> f = false).
  Proof.
    intros Hlr Hli Hcr Hci Hne Er Ei Hinfr Hinfi Hfin Hnn.
    assert (HEr : ens_of RNum s lr = []) by (unfold leaf_ens in Er; rewrite Hlr in Er; exact Er).
    assert (HEi : ens_of RNum s li = []) by (unfold leaf_ens in Ei; rewrite Hli in Ei; exact Ei).
    assert (Hdfr : l_df lr = leaf_df s kr) by (unfold leaf_df; rewrite Hlr; reflexivity).
    assert (Hki : keqb ki kr = false).
    { destruct (keqb ki kr) eqn:E; [apply keqb_eq in E; congruence|reflexivity]. }
    (* step 1: the real part *)
    unfold ws_elem at 1. rewrite Hlr. cbn [bind]. rewrite HEr, Hfin.
    rewrite (no_nil_false _ Hnn). cbn [bind]. rewrite Hcr. unfold pair_eqb at 1. cbn [fst snd]. rewrite !keqb_refl. cbn [andb].
    (* its inner loop: the partner first *)
    cbn [ws_inner].
    assert (Hcorr : leaf_corr s kr ki = Kernel.assoc (l_corr lr) ki) by (unfold leaf_corr; rewrite Hlr; reflexivity).
    set (var1 := add RNum (w_var RNum a) (mul RNum ur ur)).
    set (lst1 := (mul RNum ur ur, l_df lr) :: w_lst RNum a).
    assert (Inner : exists a1,
              match Kernel.assoc (l_corr lr) ki with
              | None => ws_inner RNum s kr lr ur [] rest (mkW RNum var1 lst1 (w_map RNum a) true)
              | Some r =>
                  l_j <- leaf_of RNum s ki ;;
                  (let covar := mul RNum (mul RNum (mul RNum (two RNum) ur) r) ui in
                   let var' := add RNum (w_var RNum (mkW RNum var1 lst1 (w_map RNum a) true)) covar in
                   if df_is_inf RNum (l_df lr) && df_is_inf RNum (l_df l_j)
                   then ws_inner RNum s kr lr ur [] rest (mkW RNum var' lst1 (w_map RNum a) true)
                   else if kmem ki []
                        then (if cmap_mem RNum (w_map RNum a) []
                              then ws_inner RNum s kr lr ur [] rest (mkW RNum var' lst1 (cmap_add RNum (w_map RNum a) [] covar) true)
                              else Err KeyError)
                        else if pair_eqb (kr, ki) (l_cplx lr)
                             then lst' <- clist_add_last RNum lst1 covar ;;
                                  ws_inner RNum s kr lr ur [] rest (mkW RNum var' lst' (w_map RNum a) true)
                             else Err AssertionError)
              end = Ok a1 /\
              a1 = mkW RNum (w_var RNum a + (vi ur + fold_right Rplus 0 (map (covar s kr ur) ((ki, ui) :: rest))))
                       ((vi ur + pcov kr ur ki ui, leaf_df s kr) :: w_lst RNum a) (w_map RNum a) true).
    { cbn [map fold_right]. unfold covar at 1, pcov. cbn [fst snd]. rewrite Hcorr.
      destruct (Kernel.assoc (l_corr lr) ki) as [r|] eqn:Ec.
      - rewrite Hli. cbn [bind].
        assert (Hbi : both_inf s kr ki = df_is_inf RNum (l_df lr) && df_is_inf RNum (l_df li)).
        { unfold both_inf, leaf_df. rewrite Hlr, Hli. reflexivity. }
        rewrite <- Hbi. destruct (both_inf s kr ki) eqn:Eb.
        + rewrite (ws_inner_inf kr lr ur [] rest _ Hlr Hinfr). eexists; split; [reflexivity|].
          cbn [w_var w_lst w_map w_fin]. unfold var1, lst1. rewrite Hdfr.
          apply mkW_eq; wsolve.
        + cbn [kmem]. rewrite Hcr. unfold pair_eqb. cbn [fst snd]. rewrite !keqb_refl. cbn [andb].
          unfold lst1. cbn [clist_add_last bind].
          rewrite (ws_inner_inf kr lr ur [] rest _ Hlr Hinfr). eexists; split; [reflexivity|].
          cbn [w_var w_lst w_map w_fin]. unfold var1. rewrite Hdfr.
          apply mkW_eq; wsolve.
      - rewrite (ws_inner_inf kr lr ur [] rest _ Hlr Hinfr). eexists; split; [reflexivity|].
        cbn [w_var w_lst w_map w_fin]. unfold var1, lst1. rewrite Hdfr.
        apply mkW_eq; wsolve. }
    destruct Inner as [a1 [Ha1 Ea1]].
    unfold zero in *. cbn [T RNum] in *.
    match goal with |- exists f, bind ?X _ = _ /\ _ => replace X with (@Ok wsaccR a1) by (symmetry; exact Ha1) end.
    cbn [bind]. subst a1.
    (* step 2: the imaginary part, entered with finish_complex set *)
    unfold ws_elem. rewrite Hli. cbn [bind w_var w_lst w_map w_fin]. rewrite HEi.
    rewrite (no_nil_false _ Hnn).
    destruct rest as [|[k3 u3] rest3].
    - cbn [clist_add_last bind]. exists true. split; [|intros H; contradiction H; reflexivity].
      f_equal. cbn [map fold_right]. apply mkW_eq; wsolve.
    - cbn [clist_add_last bind]. cbn [T RNum] in *. rewrite Hci. unfold pair_eqb. cbn [fst snd]. rewrite Hki. cbn [andb].
      rewrite (ws_inner_inf ki li ui [] ((k3, u3) :: rest3) _ Hli Hinfi).
      exists false. split; [|reflexivity].
      cbn [w_var w_lst w_map w_fin]. f_equal. apply mkW_eq; wsolve.
  Qed.

  (* ---------- the whole dependent vector ---------- *)
  Lemma okc_cplx_none k u rest l : leaf_of RNum s k = Ok l -> l_cplx l = None ->
    forall st, groups_c ((k, u) :: rest) st =
      match rest with
      | [] => if cmap_mem RNum (snd st) (leaf_ens s k) then (fst st, add_inc (snd st) (leaf_ens s k, leaf_df s k, vi u))
              else ((vi u, leaf_df s k) :: fst st, snd st)
      | _ :: _ =>
          match leaf_ens s k with
          | [] => groups_c rest ((vi u, leaf_df s k) :: fst st, fold_left add_inc (inner_incs s k u rest) (snd st))
          | _ :: _ => groups_c rest (fst st, fold_left add_inc ((leaf_ens s k, leaf_df s k, vi u) :: inner_incs s k u rest) (snd st))
          end
      end.
  Proof.
    intros Hl Hc st. cbn [groups_c]. destruct rest as [|[k2 u2] rest2]; [reflexivity|].
    unfold leaf_cplx. rewrite Hl, Hc. cbn [pair_eqb]. reflexivity.
  Qed.

  Lemma ws_dep_c (d : rvecs) : okc d -> forall (a : wsaccR),
    w_fin RNum a = false -> no_nil_key (w_map RNum a) ->
    (exists f, ws_dep RNum s d a =
       Ok (mkW RNum (w_var RNum a + vtot s d)
               (fst (groups_c d (w_lst RNum a, w_map RNum a)))
               (snd (groups_c d (w_lst RNum a, w_map RNum a))) f)) /\
    no_nil_key (snd (groups_c d (w_lst RNum a, w_map RNum a))).
  Proof.
    induction 1 as [|k u rest [l [Hl Hc]] Hpairs Hok IH|kr ur ki ui rest lr li Hlr Hli Hcr Hci Hne Er Ei Hir Hii Hok IH];
      intros a Hfin Hnn.
    - split; [|exact Hnn]. exists false. cbn [ws_dep groups_c vtot fst snd]. destruct a; cbn in *. subst. f_equal. apply mkW_eq; wsolve.
    - (* an ordinary element: as in WSGroups *)
      rewrite (okc_cplx_none k u rest l Hl Hc).
      cbn [ws_dep fst snd].
      destruct rest as [|[k2 u2] rest2].
      + pose proof (ws_elem_last s k u a l Hl Hfin) as He. cbn [T RNum] in He |- *. rewrite He. clear He.
        cbn [bind ws_dep vtot map fold_right fst snd].
        destruct (cmap_mem RNum (w_map RNum a) (leaf_ens s k)) eqn:Em; cbn [fst snd].
        * split; [exists false; f_equal; apply mkW_eq; wsolve|].
          unfold add_inc. rewrite Em. unfold no_nil_key. rewrite cmap_mem_add. exact Hnn.
        * split; [exists false; f_equal; apply mkW_eq; wsolve|exact Hnn].
      + pose proof (ws_elem_more s k u k2 u2 rest2 a l Hl Hc Hfin Hnn) as He. cbn [T RNum] in He |- *. rewrite He. clear He.
        assert (Hvt : vtot s ((k, u) :: (k2, u2) :: rest2) =
                      vi u + fold_right Rplus 0 (map (covar s k u) ((k2, u2) :: rest2)) + vtot s ((k2, u2) :: rest2)) by reflexivity.
        rewrite Hvt. clear Hvt.
        set (rest := (k2, u2) :: rest2) in *.
        destruct (list_eq_dec (fun a b => match key_eq_dec a b with left e => left e | right n => right n end) (leaf_ens s k) []) as [EE|EE].
        * rewrite (ws_inner_spec s k l u rest _ Hl Hc Hpairs) by (intros Hne; contradiction).
          rewrite (inner_incs_nil s k u rest EE Hpairs).
          rewrite EE. cbn [bind w_var w_lst w_map w_fin fold_left].
          destruct (IH (mkW RNum (w_var RNum a + vi u + fold_right Rplus 0 (map (covar s k u) rest))
                            ((vi u, leaf_df s k) :: w_lst RNum a) (w_map RNum a) false) eq_refl Hnn) as [[f IH1] IH2].
          cbn [w_var w_lst w_map] in IH1, IH2.
          split; [|exact IH2]. exists f.
          etransitivity; [exact IH1|]. f_equal. apply mkW_eq; wsolve.
        * assert (Hmem : cmap_mem RNum (add_inc (w_map RNum a) (leaf_ens s k, leaf_df s k, vi u)) (leaf_ens s k) = true)
            by apply cmap_mem_add_inc_self.
          assert (Hnn2 : no_nil_key (fold_left add_inc (inner_incs s k u rest) (add_inc (w_map RNum a) (leaf_ens s k, leaf_df s k, vi u)))).
          { apply no_nil_fold.
            - apply no_nil_add_inc; auto.
            - intros x Hx. rewrite (inner_incs_key _ _ _ _ _ Hx). exact EE. }
          destruct (leaf_ens s k) as [|e0 E0] eqn:EEq; [contradiction|]. rewrite <- EEq in *.
          rewrite (ws_inner_spec s k l u rest _ Hl Hc Hpairs) by (cbn [w_map]; intros _; exact Hmem).
          cbn [bind w_var w_lst w_map w_fin].
          destruct (IH (mkW RNum (w_var RNum a + vi u + fold_right Rplus 0 (map (covar s k u) rest))
                            (w_lst RNum a)
                            (fold_left add_inc (inner_incs s k u rest) (add_inc (w_map RNum a) (leaf_ens s k, leaf_df s k, vi u))) false)
                       eq_refl Hnn2) as [[f IH1] IH2].
          cbn [w_var w_lst w_map fold_left] in IH1, IH2 |- *.
          split; [|exact IH2]. exists f.
          etransitivity; [exact IH1|]. f_equal. apply mkW_eq; wsolve.
    - (* a complex pair: one term *)
      assert (Hcp : leaf_cplx kr = Some (kr, ki)) by (unfold leaf_cplx; rewrite Hlr; exact Hcr).
      rewrite (groups_c_pair kr ur ki ui rest _ Hcp). cbn [fst snd].
      destruct (ws_pair_step kr ur ki ui rest lr li a Hlr Hli Hcr Hci Hne Er Ei Hir Hii Hfin Hnn) as [f [Hstep Hf]].
      cbn [ws_dep].
      assert (Hvt : vtot s ((kr, ur) :: (ki, ui) :: rest) =
                    (vi ur + fold_right Rplus 0 (map (covar s kr ur) ((ki, ui) :: rest)))
                    + (vi ui + fold_right Rplus 0 (map (covar s ki ui) rest)) + vtot s rest) by (cbn [vtot]; ring).
      rewrite Hvt. clear Hvt.
      destruct (ws_elem RNum s kr ur ((ki, ui) :: rest) a) as [a1|e] eqn:E1; cbn [bind] in Hstep |- *; [|discriminate].
      rewrite Hstep. cbn [bind].
      destruct rest as [|p rest'].
      + cbn [ws_dep groups_c vtot fst snd]. split; [|exact Hnn]. exists f. f_equal. apply mkW_eq; wsolve.
      + assert (Hff : f = false) by (apply Hf; discriminate). subst f.
        destruct (IH (mkW RNum (w_var RNum a + (vi ur + fold_right Rplus 0 (map (covar s kr ur) ((ki, ui) :: p :: rest')))
                                 + (vi ui + fold_right Rplus 0 (map (covar s ki ui) (p :: rest'))))
                          ((vi ur + pcov kr ur ki ui + vi ui, leaf_df s kr) :: w_lst RNum a) (w_map RNum a) false)
                     eq_refl Hnn) as [[f IH1] IH2].
        cbn [w_var w_lst w_map] in IH1, IH2.
        split; [|exact IH2]. exists f. etransitivity; [exact IH1|]. f_equal. apply mkW_eq; wsolve.
  Qed.
End Pairs.

Section FinalC.
  Variable s : state.

  Lemma groups_c_nus n : forall (d : rvecs) st, (length d <= n)%nat ->
    dfs_ok s d -> nus_ok st -> nus_ok (groups_c s d st).
  Proof.
    induction n as [|n IH]; intros d [lst m] Hlen Hd Hst.
    - destruct d; [exact Hst|cbn in Hlen; lia].
    - destruct d as [|[k u] rest]; [exact Hst|].
      assert (Hk : nu_ok (leaf_df s k)) by (apply Hd; left; reflexivity).
      assert (Hrest : dfs_ok s rest) by (intros k0 H0; apply Hd; right; exact H0).
      cbn [length] in Hlen. cbn [groups_c fst snd].
      destruct rest as [|[k2 u2] rest2].
      + destruct (cmap_mem RNum m (leaf_ens s k)).
        * apply nus_ok_add_inc; auto.
        * destruct Hst as [H1 H2]. split; [|exact H2]. cbn [fst]. intros v d [H|H]; [injection H as _ <-; exact Hk | eapply H1; eauto].
      + destruct (pair_eqb (k, k2) (leaf_cplx s k)).
        * apply IH; [cbn [length] in Hlen; lia | intros k0 H0; apply Hrest; right; exact H0 |].
          destruct Hst as [H1 H2]. split; [|exact H2]. cbn [fst]. intros v d [H|H]; [injection H as _ <-; exact Hk | eapply H1; eauto].
        * destruct (leaf_ens s k) as [|e0 E0] eqn:EE.
          -- apply IH; [lia|exact Hrest|]. cbn [fst snd].
             assert (H0 : nus_ok ((vi u, leaf_df s k) :: lst, m)).
             { destruct Hst as [H1 H2]. split; [|exact H2]. cbn [fst]. intros v d [H|H]; [injection H as _ <-; exact Hk | eapply H1; eauto]. }
             apply nus_ok_fold; auto. intros x Hx. rewrite (inner_incs_df _ _ _ _ _ Hx). exact Hk.
          -- apply IH; [lia|exact Hrest|]. cbn [fst snd].
             apply (nus_ok_fold lst ((e0 :: E0, leaf_df s k, vi u) :: inner_incs s k u ((k2, u2) :: rest2))); auto.
             intros x [<-|Hx]; [exact Hk|]. rewrite (inner_incs_df _ _ _ _ _ Hx). exact Hk.
  Qed.

  Lemma okc_leaves (d : rvecs) : okc s d -> leaves_exist s d.
  Proof.
    induction 1 as [|k u rest [l [Hl _]] _ _ IH|kr ur ki ui rest lr li Hlr Hli _ _ _ _ _ _ _ _ IH]; intros k0 Hin.
    - destruct Hin.
    - destruct Hin as [<-|Hin]; [exists l; exact Hl | apply IH; auto].
    - destruct Hin as [<-|[<-|Hin]]; [exists lr; exact Hlr | exists li; exact Hli | apply IH; auto].
  Qed.

  (* dof of a real result whose dependent influences include elementary complex pairs *)
  Theorem ws_real_result_pairs (o : ureal) c :
    unode o = NoNode -> is_constant RNum o = false ->
    leaves_exist s (uc o) -> dfs_positive s (uc o) ->
    okc s (dc o) -> dfs_ok s (dc o) ->
    (exists k, (In k (map fst (uc o)) \/ In k (map fst (dc o))) /\ leaf_df s k <> DInf) ->
    let var := vsum (fun _ u => u * u) (uc o) + vtot s (dc o) in
    let st := groups_c s (dc o) (rev (map (fun ku => (snd ku * snd ku, leaf_df s (fst ku))) (uc o)), []) in
    let den := sum_terms var (fst st) + sum_terms var (map snd (snd st)) in
    welch_satterthwaite RNum s o c =
    Ok (var, (if Req_EM_T var 0 then DNaN else if Req_EM_T den 0 then DInf else DFin (1 / den)), c).
  Proof.
    intros Hn Hcst Hexu Hposu Hok Hdfd [kf [Hkf Hfin]] var st den.
    unfold welch_satterthwaite. cbn [T RNum] in *. rewrite Hn, Hcst.
    pose proof (okc_leaves _ Hok) as Hexd.
    destruct (all_inf_spec s (uc o) Hexu) as [bu [Hbu Hiu]].
    destruct (all_inf_spec s (dc o) Hexd) as [bd [Hbd Hid]].
    rewrite Hbu, Hbd. cbn [bind].
    assert (Hb : bu && bd = false).
    { destruct bu eqn:E1, bd eqn:E2; auto. exfalso. apply Hfin.
      destruct Hkf as [H|H]; [apply (proj1 Hiu eq_refl) | apply (proj1 Hid eq_refl)]; exact H. }
    rewrite Hb.
    rewrite ws_indep_spec by exact Hexu. cbn [bind]. rewrite app_nil_r.
    destruct (ws_dep_c s (dc o) Hok
                (mkW RNum (zero RNum + vsum (fun _ u => u * u) (uc o))
                     (rev (map (fun ku => (snd ku * snd ku, leaf_df s (fst ku))) (uc o))) [] false)
                eq_refl eq_refl) as [[f Hdep] _].
    cbn [w_var w_lst w_map] in Hdep. cbn [T RNum] in Hdep |- *. rewrite Hdep. cbn [bind w_var w_lst w_map].
    fold st.
    assert (EV : zero RNum + vsum (fun _ u => u * u) (uc o) + vtot s (dc o) = var)
      by (unfold var, zero; cbn [of_Z RNum]; lra).
    rewrite !EV. cbn [eqb RNum]. unfold Reqb, zero; cbn [of_Z RNum].
    destruct (Req_EM_T var (IZR 0)) as [E0|E0]; destruct (Req_EM_T var 0) as [E0'|E0']; try (simpl in *; lra).
    - reflexivity.
    - assert (Hnus : nus_ok st).
      { unfold st. apply (groups_c_nus (length (dc o))); auto. split; cbn [fst snd]; [|intros ? ? ? []].
        intros v d Hin. apply in_rev in Hin. apply in_map_iff in Hin. destruct Hin as [[k u] [Heq Hin]].
        cbn [fst snd] in Heq. injection Heq as _ <-.
        assert (Hk : In k (map fst (uc o))) by (apply in_map_iff; exists (k, u); auto).
        specialize (Hposu k Hk). unfold nu_ok. destruct (leaf_df s k); auto. }
      rewrite ws_den_spec.
      + cbn [bind].
        assert (ED : IZR 0 + fold_right (fun vd acc => ws_term var (fst vd) (snd vd) + acc) 0
                              (rev (rev (map snd (snd st)) ++ fst st)) = den).
        { unfold den. fold (sum_terms var (rev (rev (map snd (snd st)) ++ fst st))).
          rewrite sum_terms_rev, sum_terms_app, sum_terms_rev. lra. }
        match goal with |- context [div RNum (one RNum) ?X] => replace X with den by (symmetry; exact ED) end.
        unfold one; cbn [of_Z div RNum]. unfold R_div.
        destruct (Req_EM_T den 0); [reflexivity|]. cbn [is_nan is_inf RNum]. reflexivity.
      + exact E0'.
      + intros v nu Hin. apply in_rev in Hin. apply in_app_or in Hin. destruct Hnus as [N1 N2].
        destruct Hin as [Hin|Hin].
        * apply in_rev in Hin. apply in_map_iff in Hin. destruct Hin as [[E [v' d']] [Heq Hin]].
          cbn [snd] in Heq. injection Heq as -> ->. exact (N2 _ _ _ Hin).
        * exact (N1 _ _ Hin).
  Qed.

  (* a complex pair alone is ONE term: for y depending only on the two components of one
     elementary complex number with finite dof nu, dof(y) = nu *)
  Corollary pair_is_one_term kr ur ki ui lr li nu c :
    leaf_of RNum s kr = Ok lr -> leaf_of RNum s ki = Ok li ->
    l_cplx lr = Some (kr, ki) -> l_cplx li = Some (kr, ki) -> kr <> ki ->
    leaf_ens s kr = [] -> leaf_ens s ki = [] ->
    l_df lr = DFin nu -> l_df li = DFin nu -> nu <> 0 ->
    let o := mkU 0 [] [(kr, ur); (ki, ui)] [] NoNode in
    let v := vi ur + pcov s kr ur ki ui + vi ui in
    v <> 0 ->
    welch_satterthwaite RNum s o c = Ok (v, DFin nu, c).
  Proof.
    intros Hlr Hli Hcr Hci Hne Er Ei Dr Di Hnu o v Hv0.
    assert (Hbi : both_inf s kr ki = false) by (unfold both_inf, leaf_df; rewrite Hlr, Dr; reflexivity).
    assert (Hv : vtot s (dc o) = v).
    { unfold o, v, pcov. cbn [dc vtot map fold_right]. unfold covar. cbn [fst snd]. rewrite Hbi.
      destruct (leaf_corr s kr ki); ring. }
    assert (Hok : okc s (dc o)).
    { unfold o; cbn [dc]. apply (okc_pair s kr ur ki ui [] lr li); auto.
      - intros kj uj r Hin; destruct Hin.
      - intros kj uj r Hin; destruct Hin.
      - apply okc_nil. }
    assert (Hdr : leaf_df s kr = DFin nu) by (unfold leaf_df; rewrite Hlr; exact Dr).
    assert (Hdi : leaf_df s ki = DFin nu) by (unfold leaf_df; rewrite Hli; exact Di).
    assert (H1 : leaves_exist s (uc o)) by (intros k []).
    assert (H2 : dfs_positive s (uc o)) by (intros k []).
    assert (H3 : dfs_ok s (dc o)).
    { intros k Hk. unfold o in Hk; cbn [dc map fst] in Hk. destruct Hk as [<-|[<-|[]]]; [rewrite Hdr|rewrite Hdi]; exact Hnu. }
    assert (H4 : exists k, (In k (map fst (uc o)) \/ In k (map fst (dc o))) /\ leaf_df s k <> DInf).
    { exists kr. split; [right; left; reflexivity|]. rewrite Hdr. discriminate. }
    rewrite (ws_real_result_pairs o c eq_refl eq_refl H1 H2 Hok H3 H4).
    cbn [uc vsum]. rewrite Hv.
      assert (Hcp : leaf_cplx s kr = Some (kr, ki)) by (unfold leaf_cplx; rewrite Hlr; exact Hcr).
      unfold o. cbn [dc uc map rev]. rewrite (groups_c_pair s kr ur ki ui [] _ Hcp). cbn [groups_c fst snd map].
      fold v. rewrite Hdr. unfold sum_terms. cbn [fold_right fst snd ws_term].
      cbn [vsum]. replace (0 + v) with v by ring.
      destruct (Req_EM_T v 0) as [E|_]; [contradiction|].
      assert (Hd : v / v * (v / v) / nu + 0 + 0 = / nu) by (field; split; assumption).
      rewrite Hd.
      destruct (Req_EM_T (/ nu) 0) as [E|_]; [exfalso; apply (Rinv_neq_0_compat nu Hnu); exact E|].
      assert (E1 : 1 / / nu = nu) by (unfold Rdiv; rewrite Rmult_1_l; apply Rinv_inv).
      rewrite E1. reflexivity.
  Qed.
End FinalC.

(* non-vacuity: z = ucomplex(.., df = 5) with r = 1/2 between its components; y = re + 2 im:
   one term v = 1 + 2 + 4 = 7, dof(y) = 5 *)
Definition pair_state : state :=
  mkS 1%Z 2%Z 0%Z
      [(kz1, mkLeaf 1 (DFin 5) false [(kz1, 1); (kz2, / 2)] 0%nat (Some (kz1, kz2)) None);
       (kz2, mkLeaf 1 (DFin 5) false [(kz2, 1); (kz1, / 2)] 1%nat (Some (kz1, kz2)) None)]
      [] [[]; []] [].

Example pair_example :
  welch_satterthwaite RNum pair_state (mkU 0 [] [(kz1, 1); (kz2, 2)] [] NoNode) None = Ok (7, DFin 5, None).
Proof.
  assert (H := pair_is_one_term pair_state kz1 1 kz2 2
                 (mkLeaf 1 (DFin 5) false [(kz1, 1); (kz2, / 2)] 0%nat (Some (kz1, kz2)) None)
                 (mkLeaf 1 (DFin 5) false [(kz2, 1); (kz1, / 2)] 1%nat (Some (kz1, kz2)) None) 5 None).
  assert (Hp : pcov pair_state kz1 1 kz2 2 = 2).
  { unfold pcov, leaf_corr, both_inf, leaf_df, leaf_of, pair_state. cbn. lra. }
  cbn zeta in H. rewrite Hp in H. unfold vi in H.
  replace (1 * 1 + 2 + 2 * 2) with 7 in H by ring.
  apply H; try reflexivity; try (unfold kz1, kz2; intros E; discriminate E); lra.
Qed.

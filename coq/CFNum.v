(* CFNum.v -- the binary64 instance of CNum: FNum plus a finite oracle table for the cmath
   functions and the general complex power, recorded on the implementation run. *)
From Coq Require Import ZArith List Bool.
From Coq Require Import PrimFloat.
From GTCV Require Import Num FNum Cplx.
Import ListNotations.

Definition coracle_entry := (cfn * list float * res (float * float))%type.

Fixpoint coracle_lookup (tbl : list coracle_entry) (f : cfn) (args : list float) : res (float * float) :=
  match tbl with
  | [] => Err OracleMissing
  | (g, a, r) :: tbl' =>
      if cfn_eqb f g && args_eqb args a then r else coracle_lookup tbl' f args
  end.

Definition FCNum (tbl : list oracle_entry) (ctbl : list coracle_entry) : CNum :=
  {| cN := FNum tbl; cm := coracle_lookup ctbl |}.

(* LUExamples.v -- the LU model executed with exact arithmetic: over the rationals (Qc) and
   over the dual numbers on Qc (value + components indexed by nat).  Closed instances of the
   hypotheses of the theorems (non-vacuity) and the witness refuting the full-strength solve
   statement on uncertain elements: _lubksb's `elif sum != 0.0: ii = i`. *)
From Coq Require Import ZArith List Bool Lia QArith Qcanon Ring.
From GTCV Require Import Num LU LUFacts DualRing.
Import ListNotations.

(* ---------------- rationals ---------------- *)
Definition qc_eqb (x y : Qc) : bool := Qeq_bool (this x) (this y).
Definition qc_isz (x : Qc) : bool := qc_eqb x 0%Qc.
Definition qc_ofZ (z : Z) : Qc := Q2Qc (inject_Z z).
Definition qc_abs (x : Qc) : Qc := if Qle_bool (this x) 0 then Qcopp x else x.
Definition qc_recip (w : Qc) : res Qc := if qc_isz w then Err ZeroDivisionError else Ok (Qcinv w).
Definition qc_ge (a b : Qc) : bool := Qle_bool (this b) (this a).
Definition qc_gt (a b : Qc) : bool := negb (Qle_bool (this a) (this b)).

Lemma qc_eqb_eq x y : qc_eqb x y = true -> x = y.
Proof. unfold qc_eqb. intros H. apply Qc_is_canon. now apply Qeq_bool_eq. Qed.

Lemma qc_eqb_refl x : qc_eqb x x = true.
Proof. unfold qc_eqb. apply Qeq_eq_bool. reflexivity. Qed.

Lemma qc_isz_exact x : qc_isz x = true -> x = 0%Qc.
Proof. apply qc_eqb_eq. Qed.

Lemma qc_inv x : qc_isz x = false -> Qcmult x (Qcinv x) = 1%Qc.
Proof.
  intros H. apply Qcmult_inv_r. intros ->. unfold qc_isz in H. now rewrite qc_eqb_refl in H.
Qed.

Definition QcE : Elt :=
  ring_elt Qc Qc Qcplus Qcmult Qcminus Qcinv qc_isz qc_ofZ qc_abs 0%Qc qc_gt qc_ge Qcmult qc_recip.

(* ---------------- dual numbers on the rationals ---------------- *)
Notation DQ := (D Qc nat).
Definition dq_add := dadd Qc nat Qcplus.
Definition dq_mul := dmul Qc nat Qcplus Qcmult.
Definition dq_sub := dsub Qc nat Qcminus.
Definition dq_inv := dinv Qc nat Qcmult Qcopp Qcinv.
Definition dq_isz := disz Qc nat qc_isz.
Definition dq_ofZ (z : Z) : DQ := dconst Qc nat 0%Qc (qc_ofZ z).
Definition dq_abs (x : DQ) : Qc := qc_abs (fst x).

Definition DQE : Elt :=
  ring_elt DQ Qc dq_add dq_mul dq_sub dq_inv dq_isz dq_ofZ dq_abs 0%Qc qc_gt qc_ge Qcmult qc_recip.

Lemma DQ_ring : ring_theory (dO Qc nat 0%Qc) (dI Qc nat 0%Qc 1%Qc) dq_add dq_mul dq_sub
                            (dopp Qc nat Qcopp) (@eq DQ).
Proof. exact (D_ring Qc nat 0%Qc 1%Qc Qcplus Qcmult Qcminus Qcopp Qcrt). Qed.

Lemma DQ_inv : forall y, dq_isz y = false -> dq_mul y (dq_inv y) = dI Qc nat 0%Qc 1%Qc.
Proof. exact (D_inv Qc nat 0%Qc 1%Qc Qcplus Qcmult Qcminus Qcopp Qcinv qc_isz Qcrt qc_inv). Qed.

(* ---------------- checking the decomposition invariant by execution (rationals) ---------- *)
Definition q_bsum := bsum Qc 0%Qc Qcplus.

Definition dec_check (n : nat) (a lu : nat -> nat -> Qc) (idx : nat -> nat) : bool :=
  forallb (fun t => Nat.leb t (idx t) && Nat.ltb (idx t) n) (seq 0 n) &&
  forallb (fun i => forallb (fun j =>
     qc_eqb (q_bsum (fun k => Qcmult (Lm Qc 0%Qc 1%Qc lu i k) (Um Qc 0%Qc lu k j)) n)
            (perm_rows Qc idx n a i j)) (seq 0 n)) (seq 0 n).

Lemma dec_check_sound n a lu idx :
  dec_check n a lu idx = true -> decomposes Qc 0%Qc 1%Qc Qcplus Qcmult n a lu idx.
Proof.
  unfold dec_check. rewrite andb_true_iff, !forallb_forall. intros [H1 H2]. split.
  - intros t Ht. specialize (H1 t). rewrite in_seq in H1. specialize (H1 ltac:(lia)).
    rewrite andb_true_iff, Nat.leb_le, Nat.ltb_lt in H1. lia.
  - intros i j Hi Hj. specialize (H2 i). rewrite in_seq in H2. specialize (H2 ltac:(lia)).
    rewrite forallb_forall in H2. specialize (H2 j). rewrite in_seq in H2.
    specialize (H2 ltac:(lia)). now apply qc_eqb_eq.
Qed.

Definition qm (rows : list (list Z)) : nat -> nat -> Qc :=
  fun i j => qc_ofZ (nth j (nth i rows []) 0%Z).
Definition qv (l : list Z) : nat -> Qc := fun i => qc_ofZ (nth i l 0%Z).

(* a 3 x 3 system whose leading element is zero: the first pivot must come from another row *)
Definition a3 := qm [[0; 2; 1]; [1; 1; 1]; [4; -1; 3]]%Z.
Definition b3 := qv [3; 0; 5]%Z.

Lemma ludcmp_a3 :
  match ludcmp QcE 3 a3 with
  | Ok (lu, idx, par) => dec_check 3 a3 lu idx && negb (Nat.eqb (idx 0%nat) 0) = true
  | Err _ => False
  end.
Proof. vm_compute. reflexivity. Qed.

(* the hypothesis of solve_partial holds of a concrete matrix that needs pivoting, the model
   returns a solution, and the solution is not trivial *)
Lemma solve_a3 :
  match solve QcE 3 a3 b3 with
  | Ok x => map (fun i => this (x i)) (seq 0 3) = [(-17 # 3)%Q; (-8 # 3)%Q; (25 # 3)%Q]
  | Err _ => False
  end.
Proof. vm_compute. reflexivity. Qed.

Lemma decomposes_a3 :
  forall lu idx par, ludcmp QcE 3 a3 = Ok (lu, idx, par) ->
                     decomposes Qc 0%Qc 1%Qc Qcplus Qcmult 3 a3 lu idx.
Proof.
  intros lu idx par H. pose proof ludcmp_a3 as C. rewrite H in C.
  apply andb_true_iff in C. apply dec_check_sound. apply C.
Qed.

(* ---------------- the refutation on uncertain elements ---------------- *)
(* a = [[2,1],[1,3]] (plain numbers), b = [u, 1] where u has value 0 and component 1 w.r.t.
   influence 0.  No row exchange happens; _lubksb tests `sum != 0.0` on the VALUE of u, skips
   it, and row 1 never subtracts lu[1,0]*u. *)
Definition ra : nat -> nat -> DQ := fun i j => dq_ofZ (nth j (nth i [[2; 1]; [1; 3]]%Z []) 0%Z).
Definition rb : nat -> DQ :=
  fun i => match i with
           | O => (0%Qc, fun k => if Nat.eqb k 0 then 1%Qc else 0%Qc)
           | _ => dq_ofZ 1
           end.

Definition d_bsum := bsum DQ (dO Qc nat 0%Qc) dq_add.

Lemma refute_compute :
  match solve DQE 2 ra rb with
  | Ok x =>
      (* value of every residual is zero, but row 1 keeps the component 1/2 of influence 0 *)
      qc_eqb (dval Qc nat (d_bsum (fun j => dq_mul (ra 0%nat j) (x j)) 2)) (dval Qc nat (rb 0%nat)) = true /\
      qc_eqb (dval Qc nat (d_bsum (fun j => dq_mul (ra 1%nat j) (x j)) 2)) (dval Qc nat (rb 1%nat)) = true /\
      this (dcomp Qc nat (d_bsum (fun j => dq_mul (ra 1%nat j) (x j)) 2) 0%nat) = (1 # 2)%Q /\
      this (dcomp Qc nat (rb 1%nat) 0%nat) = 0%Q
  | Err _ => False
  end.
Proof. vm_compute. repeat split. Qed.

Theorem solve_refuted :
  exists (a : nat -> nat -> DQ) (b x : nat -> DQ),
    solve DQE 2 a b = Ok x /\
    (forall i, (i < 2)%nat ->
               dval Qc nat (d_bsum (fun j => dq_mul (a i j) (x j)) 2) = dval Qc nat (b i)) /\
    exists i k, (i < 2)%nat /\
                dcomp Qc nat (d_bsum (fun j => dq_mul (a i j) (x j)) 2) k <> dcomp Qc nat (b i) k.
Proof.
  pose proof refute_compute as C.
  destruct (solve DQE 2 ra rb) as [x|e] eqn:E; [|contradiction].
  destruct C as (C0 & C1 & C2 & C3).
  exists ra, rb, x. split; [exact E|]. split.
  - intros i Hi. destruct i as [|[|i]]; [now apply qc_eqb_eq | now apply qc_eqb_eq | lia].
  - exists 1%nat, 0%nat. split; [lia|]. intros H. rewrite H in C2. rewrite C3 in C2. discriminate.
Qed.

(* the same call is fine when the zero-valued element really is zero: exactness of the test
   on the right-hand side is what the restricted theorem asks for *)
Example rb_not_exact : dq_isz (rb 0%nat) = true /\ rb 0%nat <> dO Qc nat 0%Qc.
Proof.
  split; [reflexivity|]. intros H.
  assert (E : snd (rb 0%nat) 0%nat = snd (dO Qc nat 0%Qc) 0%nat) by now rewrite H.
  vm_compute in E. discriminate.
Qed.

(* Reachable.v -- C04 for every reachable state: after ANY history of session operations, for
   ANY uncertain number present, variance and covariance are the LPU double sums, covariance
   is symmetric and cov(y,y) = variance(y).  (Invariant.v discharges the hypotheses of LPU.v.) *)
From Coq Require Import ZArith List Bool Reals Lia Lra.
From GTCV Require Import Num RNum Vector VectorFacts Opres KTypes Kernel LPU Invariant.
Import ListNotations.
Local Open Scope R_scope.

Lemma R_eqb_one : eqb RNum (one RNum) (one RNum) = true.
Proof. cbn [eqb RNum]. unfold Reqb. destruct (Req_EM_T (one RNum) (one RNum)); congruence. Qed.

Section Reach.
  Variable s : KTypes.state R.
  Hypothesis HI : Inv RNum s.

  Lemma leaf_of_lookup k l : lookup (s_leaves s) k = Some l -> leaf_of RNum s k = Ok l.
  Proof. intros H. unfold leaf_of. unfold lookup in H. cbn [T RNum] in *. rewrite H. reflexivity. Qed.

  Lemma Rs_sym k k' l l' :
    lookup (s_leaves s) k = Some l -> lookup (s_leaves s) k' = Some l' -> Rs s k k' = Rs s k' k.
  Proof.
    intros Hl Hl'. destruct HI as [[_ [_ [_ [_ [_ Sy]]]]] _]. unfold lookup in *. cbn [T RNum] in *.
    rewrite (Rs_leaf s k l k') by (unfold leaf_of; cbn [T RNum]; rewrite Hl; reflexivity).
    rewrite (Rs_leaf s k' l' k) by (unfold leaf_of; cbn [T RNum]; rewrite Hl'; reflexivity).
    unfold corr_get. cbn [T RNum zero of_Z].
    destruct (Kernel.assoc (l_corr l) k') as [r|] eqn:E1.
    - destruct (Sy _ _ _ _ Hl E1) as [l2 [Hl2 Hr2]].
      assert (l2 = l') by (rewrite Hl' in Hl2; injection Hl2; auto). subst l2.
      rewrite Hr2. reflexivity.
    - destruct (Kernel.assoc (l_corr l') k) as [r'|] eqn:E2; auto.
      destruct (Sy _ _ _ _ Hl' E2) as [l2 [Hl2 Hr2]].
      assert (l2 = l) by (rewrite Hl in Hl2; injection Hl2; auto). subst l2.
      rewrite E1 in Hr2. discriminate.
  Qed.

  Lemma obj_hyps o : obj_wf RNum s o ->
    leaves_exist s (dc o) /\ corr_sym_on s (dc o) /\ sorted (N:=RNum) (uc o).
  Proof.
    intros [Su [Sd [Si [Ku [Kd Ki]]]]].
    assert (Ex : leaves_exist s (dc o)).
    { intros k Hk. destruct (Kd k Hk) as [l [Hl _]]. exists l. apply leaf_of_lookup; exact Hl. }
    split; [exact Ex|]. split; [|exact Su]. split.
    - intros k k' Hk Hk'. destruct (Kd k Hk) as [l [Hl _]]. destruct (Kd k' Hk') as [l' [Hl' _]].
      eapply Rs_sym; eauto.
    - intros k Hk. destruct (Kd k Hk) as [l [Hl Hi]].
      destruct HI as [[_ [_ [_ [D1 _]]]] _]. destruct (D1 _ _ Hl Hi) as [r [Hr Hone]].
      rewrite (Rs_leaf s k l k) by (apply leaf_of_lookup; exact Hl).
      unfold corr_get. unfold lookup in Hr. rewrite Hr.
      cbn [eqb RNum] in Hone. unfold Reqb in Hone. destruct (Req_EM_T r (one RNum)); [|discriminate].
      subst r. reflexivity.
  Qed.
End Reach.

Theorem reachable_variance ctx p i o c :
  let s := fst (run RNum (init RNum ctx) p) in
  nth_error (s_slots s) i = Some (SReal o c) ->
  std_variance_real RNum s o = Ok (vsum (fun _ u => u * u) (uc o) + dsum s (dc o) (dc o)) /\
  std_covariance_real RNum s o o = std_variance_real RNum s o.
Proof.
  intros s Hn. pose proof (reachable_Inv RNum R_eqb_one ctx p) as HI. fold s in HI.
  destruct (obj_hyps s HI o (proj2 HI _ _ _ Hn)) as [Ex [Sy Su]].
  split; [apply std_variance_spec; auto | apply covariance_self_is_variance; auto].
Qed.

Theorem reachable_covariance_symmetric ctx p i j a ca b cb :
  let s := fst (run RNum (init RNum ctx) p) in
  nth_error (s_slots s) i = Some (SReal a ca) -> nth_error (s_slots s) j = Some (SReal b cb) ->
  std_covariance_real RNum s a b = std_covariance_real RNum s b a.
Proof.
  intros s Ha Hb. pose proof (reachable_Inv RNum R_eqb_one ctx p) as HI. fold s in HI.
  pose proof (proj2 HI _ _ _ Ha) as Wa. pose proof (proj2 HI _ _ _ Hb) as Wb.
  destruct (obj_hyps s HI a Wa) as [Exa [_ Sua]]. destruct (obj_hyps s HI b Wb) as [Exb [_ Sub]].
  apply covariance_symmetric; auto.
  intros k k' Hk Hk'.
  destruct Wa as [_ [_ [_ [_ [Kda _]]]]]. destruct Wb as [_ [_ [_ [_ [Kdb _]]]]].
  destruct (Kda k Hk) as [l [Hl _]]. destruct (Kdb k' Hk') as [l' [Hl' _]].
  eapply Rs_sym; eauto.
Qed.

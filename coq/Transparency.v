(* Transparency.v -- C06 (and part of C10): everything the operators, functions and the
   variance / covariance / component reports compute depends only on an operand's value and
   its independent and dependent component vectors -- never on its node, its
   intermediate-component vector or its role.  Declaring an intermediate result changes
   exactly the node and the intermediate vector, hence nothing downstream.
   Proved for EVERY number instance N (binary64 included): "bit-identical downstream". *)
From Coq Require Import ZArith List Bool.
From GTCV Require Import Num Vector Opres KTypes Kernel.
From GTCV.gen Require Import Gen_lib_real.
Import ListNotations.

Section Transparency.
  Variable N : Num.
  Notation V := (T N).
  Notation ureal := (KTypes.ureal V).
  Notation state := (KTypes.state V).

  (* same value, same independent and dependent components *)
  Definition same_core (a b : ureal) : Prop := ux a = ux b /\ uc a = uc b /\ dc a = dc b.

  Lemma same_core_refl a : same_core a a.
  Proof. repeat split. Qed.

  Definition opd_equiv (a b : operand N) : Prop :=
    match a, b with
    | OpdU x, OpdU y => same_core x y
    | OpdN v, OpdN w => v = w
    | _, _ => False
    end.

  Definition res_equiv (a b : res (operand N)) : Prop :=
    match a, b with
    | Ok x, Ok y => opd_equiv x y
    | Err e, Err e' => e = e'
    | _, _ => False
    end.

  Lemma realize_congr (r : opres V) (a b a' b' : ureal) :
    same_core a a' -> same_core b b' ->
    res_equiv (v <- realize N r a b ;; of_opval N v a b)
              (v <- realize N r a' b' ;; of_opval N v a' b').
  Proof.
    intros [Ha1 [Ha2 Ha3]] [Hb1 [Hb2 Hb3]].
    destruct r as [w|y|y|w y wt|y w1 w2|y|w y|w| | ]; cbn [realize bind of_opval pick].
    - destruct w; cbn [of_opval res_equiv opd_equiv]; repeat split; auto.
    - reflexivity.
    - cbn [res_equiv opd_equiv]. repeat split.
    - destruct w; cbn [pick res_equiv opd_equiv new_un]; unfold same_core; cbn [ux uc dc];
        rewrite ?Ha2, ?Ha3, ?Hb2, ?Hb3; repeat split; auto.
    - cbn [res_equiv opd_equiv new_un]; unfold same_core; cbn [ux uc dc];
        rewrite ?Ha2, ?Ha3, ?Hb2, ?Hb3; repeat split; auto.
    - cbn [res_equiv opd_equiv new_un]; unfold same_core; cbn [ux uc dc];
        rewrite ?Ha2, ?Ha3, ?Hb2, ?Hb3; repeat split; auto.
    - destruct w; cbn [pick res_equiv opd_equiv new_un]; unfold same_core; cbn [ux uc dc];
        rewrite ?Ha2, ?Ha3, ?Hb2, ?Hb3; repeat split; auto.
    - destruct w; cbn [pick res_equiv opd_equiv]; unfold same_core, neg_of, new_un; cbn [ux uc dc];
        rewrite ?Ha1, ?Ha2, ?Ha3, ?Hb1, ?Hb2, ?Hb3; repeat split; auto.
    - rewrite <- Ha1. destruct (g_mul_un N (ux a) (ux a)) as [[]|]; cbn [bind of_opval res_equiv opd_equiv]; auto.
      unfold same_core, new_un; cbn [ux uc dc]. rewrite ?Ha2, ?Ha3; repeat split; auto.
    - reflexivity.
  Qed.

  Lemma apply_un_congr f (a a' : ureal) :
    same_core a a' ->
    res_equiv (v <- apply_un N f a ;; of_opval N v a a) (v <- apply_un N f a' ;; of_opval N v a' a').
  Proof.
    intros H. unfold apply_un. destruct H as [H1 H23]. rewrite <- H1.
    destruct (g_unop N f (ux a)) as [r|e]; simpl; auto.
    apply realize_congr; split; auto.
  Qed.

  Theorem eval_un_congr (s s' : state) :
    (forall i, match get_real N s i, get_real N s' i with
               | Ok (_, o, _), Ok (_, o', _) => same_core o o'
               | Err e, Err e' => e = e'
               | _, _ => False
               end) ->
    forall e, res_equiv (eval_un N s e) (eval_un N s' e).
  Proof.
    intros Hs. induction e as [i|v|f e1 IH1|f e1 IH1 e2 IH2]; simpl.
    - specialize (Hs i).
      destruct (get_real N s i) as [[[j o] c]|], (get_real N s' i) as [[[j' o'] c']|]; simpl; auto.
    - reflexivity.
    - destruct (eval_un N s e1) as [a|], (eval_un N s' e1) as [a'|]; simpl in *; try contradiction; auto.
      destruct a as [oa|va], a' as [oa'|va']; simpl in IH1; try contradiction; [|reflexivity].
      apply apply_un_congr; auto.
    - destruct (eval_un N s e1) as [a|], (eval_un N s' e1) as [a'|]; simpl in *; try contradiction; auto.
      destruct (eval_un N s e2) as [b|], (eval_un N s' e2) as [b'|]; simpl in *; try contradiction; auto.
      destruct a as [oa|va], a' as [oa'|va']; simpl in IH1; try contradiction;
        destruct b as [ob|vb], b' as [ob'|vb']; simpl in IH2; try contradiction; simpl.
      + destruct IH1 as [A1 A23], IH2 as [B1 B23]. rewrite <- A1, <- B1.
        destruct (g_bin_uu N f (ux oa) (ux ob)) as [r|e]; simpl; auto.
        apply realize_congr; split; auto.
      + destruct IH1 as [A1 A23]. subst vb'. rewrite <- A1.
        destruct (g_bin_un N f (ux oa) vb) as [r|e]; simpl; auto.
        apply realize_congr; split; auto.
      + destruct IH2 as [B1 B23]. subst va'. rewrite <- B1.
        destruct (g_bin_nu N f va (ux ob)) as [r|e]; simpl; auto.
        apply realize_congr; split; auto.
      + reflexivity.
  Qed.

  (* the reports *)
  Lemma std_variance_congr (s : state) (a a' : ureal) :
    same_core a a' -> std_variance_real N s a = std_variance_real N s a'.
  Proof. intros [_ [H2 H3]]. unfold std_variance_real. rewrite H2, H3. reflexivity. Qed.

  Lemma std_covariance_congr (s : state) (a a' b b' : ureal) :
    same_core a a' -> same_core b b' -> std_covariance_real N s a b = std_covariance_real N s a' b'.
  Proof.
    intros [_ [H2 H3]] [_ [H2' H3']]. unfold std_covariance_real. rewrite H2, H3, H2', H3'. reflexivity.
  Qed.

  (* components and sensitivities with respect to an elementary input *)
  Lemma u_component_congr (s : state) (y y' x : ureal) k :
    unode x = LeafRef k -> same_core y y' -> u_component N s y x = u_component N s y' x.
  Proof. intros Hx [_ [H2 H3]]. unfold u_component. rewrite Hx, H2, H3. reflexivity. Qed.

  Lemma sensitivity_congr (s : state) (y y' x : ureal) k :
    unode x = LeafRef k -> same_core y y' -> sensitivity N s y x = sensitivity N s y' x.
  Proof. intros Hx [_ [H2 H3]]. unfold sensitivity. rewrite Hx, H2, H3. reflexivity. Qed.

  (* result(): what the step returns for a plain (not yet declared) result *)
  Theorem result_same (s : state) a label ja oa c s' x' u' d' i' k' :
    get_real N s a = Ok (ja, oa, c) -> unode oa = NoNode ->
    step N s (OpResult a label) = (s', OutObj x' u' d' i' k') ->
    x' = ux oa /\ u' = uc oa /\ d' = dc oa /\
    exists k un, k' = KInterm k /\ i' = merge (ic oa) [(k, un)] /\
                 (exists c1, prop_u N (mkS (s_ctx s) (s_ne s) (s_ni s + 1)%Z (s_leaves s) (s_nodes s) (s_ens s) (s_slots s)) oa c = Ok (un, c1)).
  Proof.
    intros Hg Hn Hst. unfold step in Hst. rewrite Hg, Hn in Hst.
    destruct (prop_u N _ oa c) as [[un c1]|e] eqn:Eu; [|discriminate].
    destruct (prop_df N _ oa c1) as [[d c2]|e] eqn:Ed; [|discriminate].
    cbn [dump nkind_of unode ux uc dc ic] in Hst. injection Hst as _ <- <- <- <- <-.
    repeat split; auto. eexists; eexists; repeat split; eauto.
  Qed.
End Transparency.

(* SpecialChain.v -- C20, implicit: the components of the solution in terms of partial
   derivatives, through the denotation relation of the chain-rule development (C02). *)
From Coq Require Import ZArith List Bool Reals Lra.
From Coquelicot Require Import Coquelicot.
From GTCV Require Import Num RNum Vector VectorFacts Opres KTypes Kernel ChainRule LPU Special SpecialFacts.
Import ListNotations.
Local Open Scope R_scope.

(* if fn(constant(xk)) denotes the function Fy of the inputs (C02_chain_rule gives this for every
   expression tree), the returned number carries, for every input k,
   -(dFy/dx_k) u_k / (dF/dx) *)
Theorem implicit_components_partial (U : key -> R) (I : key -> bool) (e0 : env)
        (Fy : env -> R) (oy r : ureal) (d : R) :
  Den U I e0 oy Fy -> scaled_by d oy r -> d <> 0 ->
  forall k, exists D, is_derive (fun t => Fy (upd e0 k t)) (e0 k) D /\ comp r k = - (U k * D) / d.
Proof.
  intros HD (Hu & Hd & _) Hne k.
  destruct (den_der _ _ _ _ _ HD k) as [D [H1 H2]].
  exists D. split; [exact H1|]. unfold comp in *. rewrite Hu, Hd, <- H2. field. exact Hne.
Qed.

(* and the derivative used is the sensitivity to the probe: if fn(probe) denotes Fx and the probe
   is the elementary input kx, then d = dFx/dx_kx *)
Theorem implicit_derivative_partial (U : key -> R) (I : key -> bool) (e0 : env) (s : state)
        (Fx : env -> R) (o x : ureal) kx lf d :
  attrs_ok U I s -> Den U I e0 o Fx ->
  Kernel.assoc (s_leaves s) kx = Some lf -> unode x = LeafRef kx -> 0 < U kx ->
  sensitivity RNum s o x = Ok d ->
  is_derive (fun t => Fx (upd e0 kx t)) (e0 kx) d.
Proof.
  intros Ha HD Hl Hx Hu Hs.
  destruct (reporting_sound U I e0 s o Fx kx lf x Ha HD Hl Hx Hu) as (D & H1 & _ & H3).
  rewrite Hs in H3. injection H3 as ->. exact H1.
Qed.

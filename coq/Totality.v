(* Totality.v -- C01, third clause ("an expression that is defined for the plain values is never
   rejected with an internal error"), for the real kernel: whatever an expression tree over
   uncertain real numbers raises is an error of the underlying float arithmetic
   (ZeroDivisionError, ValueError, OverflowError from a division or a math-library call on the
   VALUES, the same error plain Python raises for them or the documented derivative
   singularities), a "result is complex" signal, or a TypeError for a malformed operand -- never
   AssertionError / KeyError / IndexError / AttributeError / RuntimeError / NotImplementedError.
   For every number instance whose primitives raise only arithmetic errors, every tree, every
   session state.  The operator bodies are the ones regenerated from lib.py on every run. *)
From Coq Require Import ZArith List Bool.
From GTCV Require Import Num Vector Opres KTypes Kernel.
From GTCV.gen Require Import Gen_lib_real.
Import ListNotations.

Definition arith_exn (e : exn) : Prop :=
  e = ZeroDivisionError \/ e = ValueError \/ e = OverflowError \/ e = ComplexResult.

Definition allowed_exn (e : exn) : Prop := arith_exn e \/ e = TypeError.

(* the math-library functions the real kernel calls *)
Definition unary_fn (f : fn) : Prop :=
  match f with
  | F_exp | F_log | F_log10 | F_sqrt | F_sin | F_cos | F_tan | F_asin | F_acos | F_atan
  | F_sinh | F_cosh | F_tanh | F_asinh | F_acosh | F_atanh => True
  | _ => False
  end.
Definition binary_fn (f : fn) : Prop := match f with F_pow | F_atan2 | F_copysign => True | _ => False end.

Section Totality.
  Variable N : Num.
  Notation V := (T N).

  (* the primitives of the number instance raise only arithmetic errors *)
  Hypothesis div_ok : forall x y e, div N x y = Err e -> arith_exn e.
  Hypothesis libm1_ok : forall f x e, unary_fn f -> libm1 N f x = Err e -> arith_exn e.
  Hypothesis libm2_ok : forall f x y e, binary_fn f -> libm2 N f x y = Err e -> arith_exn e.

  Lemma arith_zde : arith_exn ZeroDivisionError. Proof. left; reflexivity. Qed.

  Lemma pow_guard_err l r k e :
    (forall y e', k y = Err e' -> arith_exn e') -> pow_guard N l r k = Err e -> arith_exn e.
  Proof.
    intros Hk. unfold pow_guard. destruct (libm2 N F_pow l r) as [y|e0] eqn:E.
    - apply Hk.
    - pose proof (libm2_ok F_pow _ _ _ I E) as A. destruct e0; try discriminate; intros H; injection H as <-; exact A.
  Qed.

  (* one step of the analysis of  H : <term> = Err e  *)
  Ltac step H :=
    match type of H with
    | Ok _ = Err _ => discriminate H
    | Err ?x = Err _ => injection H as <-; first [exact arith_zde | assumption]
    | div N _ _ = Err _ => exact (div_ok _ _ _ H)
    | libm1 N ?f _ = Err _ => exact (libm1_ok f _ _ I H)
    | libm2 N ?f _ _ = Err _ => exact (libm2_ok f _ _ _ I H)
    | pow_guard N _ _ _ = Err _ =>
        apply (pow_guard_err _ _ _ _) in H; [exact H|]; clear H;
        let y := fresh "y" in let e' := fresh "e" in let H' := fresh "H" in intros y e' H'; cbv beta in H'; step H'
    | bind ?m _ = Err _ =>
        let E := fresh "E" in let v := fresh "v" in let e0 := fresh "e" in
        destruct m as [v|e0] eqn:E; cbn [bind] in H;
        [ step H | injection H as <-; step E ]
    | (if ?b then _ else _) = Err _ => destruct b; step H
    | (let '(_, _) := ?p in _) = Err _ => destruct p; step H
    | (let _ := _ in _) = Err _ => cbv zeta in H; step H
    | match ?m with _ => _ end = Err _ => destruct m; step H
    end.

  Ltac solve_g := intros; match goal with H : _ = Err _ |- _ => cbv zeta in H; step H end.

  Lemma g_unop_err f x e : g_unop N f x = Err e -> arith_exn e.
  Proof. destruct f; cbn [g_unop]; unfold g_exp, g_log, g_log10, g_sqrt, g_sin, g_cos, g_tan, g_asin, g_acos, g_atan,
           g_sinh, g_cosh, g_tanh, g_asinh, g_acosh, g_atanh, g_magnitude, g_mag_squared, g_phase, g_neg, g_pos; solve_g. Qed.

  Lemma g_bin_uu_err f l r e : g_bin_uu N f l r = Err e -> arith_exn e.
  Proof. destruct f; cbn [g_bin_uu]; unfold g_add_un, g_sub_un, g_mul_un, g_div_un, g_pow_un, g_atan2_re_re; solve_g. Qed.

  Lemma g_bin_un_err f l r e : g_bin_un N f l r = Err e -> arith_exn e.
  Proof. destruct f; cbn [g_bin_un]; unfold g_add_num, g_sub_num, g_mul_num, g_div_num, g_pow_num, g_atan2_re_x; solve_g. Qed.

  Lemma g_bin_nu_err f l r e : g_bin_nu N f l r = Err e -> arith_exn e.
  Proof. destruct f; cbn [g_bin_nu]; unfold g_radd_num, g_rsub_num, g_rmul_num, g_rdiv_num, g_rpow_num, g_atan2_x_re; solve_g. Qed.
End Totality.

Section TotalityTrees.
  Variable N : Num.
  Hypothesis div_ok : forall x y e, div N x y = Err e -> arith_exn e.
  Hypothesis libm1_ok : forall f x e, unary_fn f -> libm1 N f x = Err e -> arith_exn e.
  Hypothesis libm2_ok : forall f x y e, binary_fn f -> libm2 N f x y = Err e -> arith_exn e.

  Lemma g_mul_un_shape l r res : g_mul_un N l r = Ok res -> exists y a b, res = OMergeW y a b.
  Proof. unfold g_mul_un. cbv zeta. intros H. injection H as <-. eauto. Qed.

  Lemma realize_err (r : opres (T N)) a b e : realize N r a b = Err e -> arith_exn e.
  Proof.
    (* OSelfMul re-runs the generated body of `*`, which always returns the merge shape *)
    destruct r; cbn [realize]; discriminate.
  Qed.

  Lemma apply_un_err f oa e : apply_un N f oa = Err e -> arith_exn e.
  Proof.
    unfold apply_un. destruct (g_unop N f (ux oa)) as [r|e0] eqn:E; cbn [bind].
    - apply realize_err.
    - intros H; injection H as <-. eapply g_unop_err; eauto.
  Qed.

  Lemma apply_bin_err f a b e : apply_bin N f a b = Err e -> allowed_exn e.
  Proof.
    unfold apply_bin. destruct a as [oa|va], b as [ob|vb].
    - destruct (g_bin_uu N f (ux oa) (ux ob)) as [r|e0] eqn:E; cbn [bind].
      + intros H; left; exact (realize_err _ _ _ _ H).
      + intros H; injection H as <-. left. eapply g_bin_uu_err; eauto.
    - destruct (g_bin_un N f (ux oa) vb) as [r|e0] eqn:E; cbn [bind].
      + intros H; left; exact (realize_err _ _ _ _ H).
      + intros H; injection H as <-. left. eapply g_bin_un_err; eauto.
    - destruct (g_bin_nu N f va (ux ob)) as [r|e0] eqn:E; cbn [bind].
      + intros H; left; exact (realize_err _ _ _ _ H).
      + intros H; injection H as <-. left. eapply g_bin_nu_err; eauto.
    - intros H; injection H as <-. right; reflexivity.
  Qed.

  Lemma of_opval_err v l r e : of_opval N v l r = Err e -> allowed_exn e.
  Proof.
    destruct v as [o|[|]|x|]; cbn [of_opval]; try discriminate.
    intros H; injection H as <-. left. right; right; right; reflexivity.
  Qed.

  Lemma get_real_err s i e : get_real N s i = Err e -> e = TypeError.
  Proof.
    unfold get_real. destruct (nth_error (s_slots s) (resolve N s i)) as [[o c| | | |]|]; try discriminate;
      intros H; injection H as <-; reflexivity.
  Qed.

  (* every expression tree, every state: only arithmetic errors of the values, the complex-result
     signal, or TypeError for an operand that is not an uncertain real number *)
  Theorem eval_un_total s (t : expr N) e : eval_un N s t = Err e -> allowed_exn e.
  Proof.
    revert e. induction t as [i|v|f t1 IH1|f t1 IH1 t2 IH2]; intros e; cbn [eval_un].
    - destruct (get_real N s i) as [[[j o] c]|e0] eqn:E; cbn [bind]; [discriminate|].
      intros H; injection H as <-. right. exact (get_real_err _ _ _ E).
    - discriminate.
    - destruct (eval_un N s t1) as [a|e0]; cbn [bind]; [|intros H; injection H as <-; apply IH1; reflexivity].
      destruct a as [oa|va]; [|intros H; injection H as <-; right; reflexivity].
      destruct (apply_un N f oa) as [v|e0] eqn:E; cbn [bind].
      + apply of_opval_err.
      + intros H; injection H as <-. left. exact (apply_un_err _ _ _ E).
    - destruct (eval_un N s t1) as [a|e0]; cbn [bind]; [|intros H; injection H as <-; apply IH1; reflexivity].
      destruct (eval_un N s t2) as [b|e0]; cbn [bind]; [|intros H; injection H as <-; apply IH2; reflexivity].
      destruct (apply_bin N f a b) as [v|e0] eqn:E; cbn [bind].
      + destruct a as [oa|va], b as [ob|vb]; try apply of_opval_err. intros H; injection H as <-; right; reflexivity.
      + intros H; injection H as <-. exact (apply_bin_err _ _ _ _ E).
  Qed.

  Corollary eval_un_never_internal s (t : expr N) e : eval_un N s t = Err e ->
    e <> AssertionError /\ e <> KeyError /\ e <> IndexError /\ e <> AttributeError /\ e <> RuntimeError /\
    e <> NotImplementedError /\ e <> OtherExn /\ e <> OracleMissing.
  Proof.
    intros H. destruct (eval_un_total s t e H) as [[E|[E|[E|E]]]|E]; subst e; repeat split; discriminate.
  Qed.
End TotalityTrees.

(* ---------- the real-number instance satisfies the hypotheses ---------- *)
From Coq Require Import Reals.
From GTCV Require Import RNum.

Lemma R_div_ok x y e : div RNum x y = Err e -> arith_exn e.
Proof. cbn [div RNum]. unfold R_div. destruct (Req_EM_T y 0); [|discriminate]. intros H; injection H as <-. left; reflexivity. Qed.

Lemma R_libm1_ok f x e : unary_fn f -> libm1 RNum f x = Err e -> arith_exn e.
Proof.
  cbn [libm1 RNum]. unfold R_libm1. destruct f; cbn [unary_fn]; try contradiction; intros _;
    repeat match goal with |- context [if ?b then _ else _] => destruct b end; try discriminate;
    intros H; injection H as <-; right; left; reflexivity.
Qed.

Lemma R_libm2_ok f x y e : binary_fn f -> libm2 RNum f x y = Err e -> arith_exn e.
Proof.
  cbn [libm2 RNum]. unfold R_libm2, pow_R. destruct f; cbn [binary_fn]; try contradiction; intros _; try discriminate.
  repeat match goal with |- context [if ?b then _ else _] => destruct b end; try discriminate;
    intros H; injection H as <-; first [left; reflexivity | right; right; right; reflexivity].
Qed.

Theorem eval_un_total_R (s : KTypes.state R) (t : expr RNum) e : eval_un RNum s t = Err e -> allowed_exn e.
Proof. apply (eval_un_total RNum R_div_ok R_libm1_ok R_libm2_ok). Qed.

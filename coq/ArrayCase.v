(* ArrayCase.v -- support for the generated C16 correspondence files: the Array model run with
   E := Z (element identifiers assigned by the harness; 0 = None) and the scalar operations
   given by a finite table recorded from *scalar* GTC on the implementation side.  A lookup
   miss is [Err OracleMissing] (fail closed: it can never look like agreement). *)
From Coq Require Import ZArith List Bool Arith.
From GTCV Require Import Num Array.
Import ListNotations.

Definition orow := (Z * list Z * res Z)%type.

Fixpoint zlist_eqb (a b : list Z) : bool :=
  match a, b with
  | [], [] => true
  | x :: a', y :: b' => Z.eqb x y && zlist_eqb a' b'
  | _, _ => false
  end.

Fixpoint lookup (t : list orow) (f : Z) (args : list Z) : res Z :=
  match t with
  | [] => Err OracleMissing
  | (g, a, r) :: t' => if Z.eqb f g && zlist_eqb a args then r else lookup t' f args
  end.

Definition F_LBL : Z := 92.

Definition z_un (t : list orow) (f : Z) (e : Z) : res Z := lookup t f [e].
Definition z_bin (t : list orow) (f : Z) (a b : Z) : res Z := lookup t f [a; b].
Definition z_ilabel (t : list orow) (e : Z) (i : nat) : Z :=
  match lookup t F_LBL [e; Z.of_nat i] with Ok v => v | Err _ => (-2)%Z end.

Definition zstep (t : list orow) := step Z 0%Z (z_un t) (z_bin t) (z_ilabel t).
Definition zrun (t : list orow) := run Z 0%Z (z_un t) (z_bin t) (z_ilabel t).

Definition bstate_eqb (a b : bstate) : bool :=
  match a, b with
  | BUnset, BUnset | BNone, BNone => true
  | BSome s, BSome r => shape_eqb s r
  | _, _ => false
  end.

Definition lbl_eqb (a b : res Z) : bool :=
  match a, b with
  | Ok x, Ok y => Z.eqb x y
  | Err e, Err e' => exn_eqb e e'
  | _, _ => false
  end.

Fixpoint bstates_eqb (a b : list (bstate * res Z)) : bool :=
  match a, b with
  | [], [] => true
  | (x, l) :: a', (y, l') :: b' => bstate_eqb x y && lbl_eqb l l' && bstates_eqb a' b'
  | _, _ => false
  end.

Definition akind_eqb (a b : akind) : bool :=
  match a, b with KU, KU | KN, KN => true | _, _ => false end.

(* a negative expected cell is a wildcard (uninitialised memory of np.empty(dtype=bool)) *)
Fixpoint cells_match (model expected : list Z) : bool :=
  match model, expected with
  | [], [] => true
  | x :: a', y :: b' => ((y <? 0)%Z || Z.eqb x y) && cells_match a' b'
  | _, _ => false
  end.

Definition out_eqb (a b : @out Z) : bool :=
  match a, b with
  | XArr k s c, XArr k' s' c' => akind_eqb k k' && shape_eqb s s' && cells_match c c'
  | XLbl e, XLbl e' => Z.eqb e e'
  | XExn e, XExn e' => exn_eqb e e'
  | _, _ => false
  end.

Fixpoint first_diff (n : nat) (a b : list (@out Z * list (bstate * res Z))) : option nat :=
  match a, b with
  | [], [] => None
  | (x, s) :: a', (y, s') :: b' =>
      if out_eqb x y && bstates_eqb s s' then first_diff (S n) a' b' else Some n
  | _, _ => Some n
  end.

Definition acase := (list orow * list (@op Z) * list (@out Z * list (bstate * res Z)))%type.

Definition run_acase (c : acase) : Z :=
  let '(tbl, prog, expected) := c in
  match first_diff 0 (snd (zrun tbl [] prog)) expected with
  | None => (-1)%Z
  | Some i => Z.of_nat i
  end.

(* the model's own output at a step, for diagnosis *)
Definition model_out (c : acase) (i : nat) :=
  let '(tbl, prog, _) := c in nth_error (snd (zrun tbl [] prog)) i.

(* direct comparison of the broadcasting rule and of the broadcast element order with NumPy:
   expected = None when np.broadcast raises, else the shape and np.broadcast_to(arange(size s).reshape(s), r).flat *)
Definition bcast_case (s t : shape) (expected : option (shape * list Z * list Z)) : Z :=
  match bshape s t, expected with
  | None, None => (-1)%Z
  | Some r, Some (r', l0, l1) =>
      if shape_eqb r r'
         && zlist_eqb (bcast_list Z s r (map Z.of_nat (seq 0 (size s)))) l0
         && zlist_eqb (bcast_list Z t r (map Z.of_nat (seq 0 (size t)))) l1
      then (-1)%Z else 1%Z
  | _, _ => 0%Z
  end.

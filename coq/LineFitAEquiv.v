(* LineFitAEquiv.v -- C13: equivariance of the WEIGHTED least-squares fit values
   (type_a.line_fit_wls, generated body g_line_fit_wls) under the affine changes of units
   x -> al*x + be, y -> ga*y + de with the same uncertainties u(y_i): the slope becomes
   ga*b/al, the intercept ga*a + de - (ga*b/al)*be, N and the dof are unchanged.  (The
   ordinary least-squares case is LineFitAFacts.ols_values_equivariant.)  By uniqueness of the
   solution of the weighted normal equations. *)
From Coq Require Import ZArith List Bool Reals Lia Lra Psatz.
From GTCV Require Import Num RNum Vector Opres KTypes Kernel FitLib LineFitA DerivTable LineFitAFacts.
From GTCV.gen Require Import Gen_type_a_fit.
Import ListNotations.
Local Open Scope R_scope.

Lemma pts_eq (l1 : list pt) : forall l2,
  map px l1 = map px l2 -> map py l1 = map py l2 -> map pu l1 = map pu l2 -> l1 = l2.
Proof.
  induction l1 as [|[[x y] u] l1 IH]; intros [|[[x' y'] u'] l2]; simpl; try discriminate; auto.
  unfold px, py, pu; simpl. intros Hx Hy Hu.
  injection Hx as -> Hx. injection Hy as -> Hy. injection Hu as -> Hu. f_equal. apply IH; assumption.
Qed.

Lemma Sw_map (g : pt -> R) (f : pt -> pt) l :
  (forall p, pu (f p) = pu p) -> Sw g (map f l) = Sw (fun p => g (f p)) l.
Proof.
  intros Hu. unfold Sw. rewrite Sm_map. apply Sm_ext. intros p _. rewrite Hu. reflexivity.
Qed.

Lemma Sw_lin2 (f g1 g2 : pt -> R) c1 c2 l :
  (forall p, In p l -> f p = c1 * g1 p + c2 * g2 p) -> Sw f l = c1 * Sw g1 l + c2 * Sw g2 l.
Proof.
  intros H. unfold Sw. apply Sm_lin2. intros p Hp. rewrite (H p Hp). unfold Rdiv. ring.
Qed.

Lemma Sw_lin3 (f g1 g2 g3 : pt -> R) c1 c2 c3 l :
  (forall p, In p l -> f p = c1 * g1 p + c2 * g2 p + c3 * g3 p) ->
  Sw f l = c1 * Sw g1 l + c2 * Sw g2 l + c3 * Sw g3 l.
Proof.
  intros H. unfold Sw. apply Sm_lin3. intros p Hp. rewrite (H p Hp). unfold Rdiv. ring.
Qed.

Theorem wls_values_equivariant (l : list pt) al be ga de dof fs fs' :
  al <> 0 ->
  g_line_fit_wls RNum (map px l) (map py l) (map pu l) dof = Ok fs ->
  g_line_fit_wls RNum (map (fun p => al * px p + be) l) (map (fun p => ga * py p + de) l) (map pu l) dof = Ok fs' ->
  fs_bx fs' = ga * fs_bx fs / al /\ fs_ax fs' = ga * fs_ax fs + de - ga * fs_bx fs / al * be /\
  fs_df fs' = fs_df fs /\ fs_n fs' = fs_n fs.
Proof.
  intros Hal H H'.
  apply wls_sound in H. destruct H as (l1 & Ex & Ey & Eu & _ & Hspec & Hn & Hdf).
  apply wls_sound in H'. destruct H' as (l2 & Ex' & Ey' & Eu' & _ & Hspec' & Hn' & Hdf').
  set (T := shift_scale al be ga de).
  assert (E1 : l1 = l) by (symmetry; apply pts_eq; assumption).
  assert (E2 : l2 = map T l).
  { symmetry; apply pts_eq; rewrite map_map.
    - rewrite <- Ex'. apply map_ext. intros p. reflexivity.
    - rewrite <- Ey'. apply map_ext. intros p. reflexivity.
    - rewrite <- Eu'. apply map_ext. intros p. reflexivity. }
  subst l1 l2.
  assert (HuT : forall p, pu (T p) = pu p) by (intros p; reflexivity).
  assert (B0 : wS (map T l) = wS l).
  { unfold wS. rewrite Sw_map by exact HuT. reflexivity. }
  assert (B1 : wSx (map T l) = al * wSx l + be * wS l).
  { unfold wSx, wS. rewrite Sw_map by exact HuT. apply Sw_lin2. intros p _. unfold T, shift_scale, px. simpl. ring. }
  assert (B2 : wSy (map T l) = ga * wSy l + de * wS l).
  { unfold wSy, wS. rewrite Sw_map by exact HuT. apply Sw_lin2. intros p _. unfold T, shift_scale, py. simpl. ring. }
  assert (B3 : wSxx (map T l) = al * al * wSxx l + 2 * al * be * wSx l + be * be * wS l).
  { unfold wSxx, wSx, wS. rewrite Sw_map by exact HuT. apply Sw_lin3. intros p _. unfold T, shift_scale, px. simpl. ring. }
  assert (B4 : wSxy (map T l) = al * ga * wSxy l + al * de * wSx l + be * ga * wSy l + be * de * wS l).
  { unfold wSxy, wSx, wSy, wS. rewrite Sw_map by exact HuT.
    transitivity (al * ga * Sw (fun p => px p * py p) l + (al * de * Sw px l + (be * ga * Sw py l + be * de * Sw (fun _ => 1) l))); [|ring].
    unfold Sw. rewrite <- !Sm_scal, <- !Sm_plus. apply Sm_ext. intros p _.
    unfold T, shift_scale, px, py, pu. simpl. unfold Rdiv. ring. }
  destruct Hspec as [_ H1 H2 _ _ _ _ _ _ _]. destruct Hspec' as [_ H1' H2' Hd' _ _ _ _ _ _].
  unfold wDet in Hd'. rewrite B0, B1, B2 in H1'. rewrite B1, B3, B4 in H2'. rewrite B0, B1, B3 in Hd'.
  destruct (ne_equivariant _ _ _ _ _ _ _ al be ga de Hal H1 H2) as [G1 G2].
  assert (Hdet : wS l * (al * al * wSxx l + 2 * al * be * wSx l + be * be * wS l)
                 - (al * wSx l + be * wS l) * (al * wSx l + be * wS l) <> 0) by lra.
  destruct (ne_unique _ _ _ _ _ _ _ _ _ Hdet H1' H2' G1 G2) as [Ea Eb].
  split; [exact Eb|]. split; [exact Ea|].
  split; [|rewrite Hn, Hn', map_length; reflexivity].
  unfold dof_rule in Hdf, Hdf'. destruct dof; [rewrite Hdf, Hdf'; reflexivity| |contradiction].
  destruct Hdf as [_ Hdf], Hdf' as [_ Hdf']. rewrite Hdf, Hdf'. reflexivity.
Qed.

(* non-vacuity is LineFitAFacts.wls_total: the fit returns for every data set with at least
   three points, non-zero weights and a non-degenerate design, so both hypotheses hold together
   (the transformed design is non-degenerate as al <> 0) *)

(* ================= ordinary least squares: the WHOLE result is equivariant =================
   values (as LineFitAFacts.ols_values_equivariant), the residual sum ssr' = ga^2 ssr, and the
   covariance matrix of (a', b') is the one the linear map a' = ga a + de - (ga be/al) b,
   b' = (ga/al) b induces:  u(b') = |ga/al| u(b),
   u(a')^2 = ga^2 (u(a)^2 - 2 (be/al) cov(a,b) + (be/al)^2 u(b)^2),
   cov(a',b') = (ga^2/al) (cov(a,b) - (be/al) u(b)^2)          [cov = r u(a) u(b)] *)
Theorem ols_full_equivariant (l : list pt) al be ga de fs fs' :
  al <> 0 ->
  g_line_fit RNum (map px l) (map py l) = Ok fs ->
  g_line_fit RNum (map (fun p => al * px p + be) l) (map (fun p => ga * py p + de) l) = Ok fs' ->
  let cab := fs_r fs * fs_au fs * fs_bu fs in
  fs_ssr fs' = ga * ga * fs_ssr fs /\
  fs_bu fs' = Rabs (ga / al) * fs_bu fs /\
  fs_au fs' * fs_au fs' = ga * ga * (fs_au fs * fs_au fs - 2 * (be / al) * cab + (be / al) * (be / al) * (fs_bu fs * fs_bu fs)) /\
  fs_r fs' * fs_au fs' * fs_bu fs' = ga * ga / al * (cab - be / al * (fs_bu fs * fs_bu fs)).
Proof.
  intros Hal H H'. cbv zeta.
  destruct (ols_values_equivariant l al be ga de fs fs' Hal H H') as (Eb & Ea & _ & _).
  apply ols_sound in H. destruct H as (l1 & Ex & Ey & Hl3 & _ & _ & Hsol & Hssr & _).
  apply ols_sound in H'. destruct H' as (l2 & Ex' & Ey' & _ & _ & _ & Hsol' & Hssr' & _).
  set (T := shift_scale al be ga de).
  assert (Hx2 : map px l2 = map px (map T l)) by (rewrite <- Ex', map_map; reflexivity).
  assert (Hy2 : map py l2 = map py (map T l)) by (rewrite <- Ey', map_map; reflexivity).
  assert (L1 : length l1 = length l) by (rewrite <- (map_length px l1), <- Ex; apply map_length).
  assert (L2 : length l2 = length l) by (rewrite <- (map_length px l2), Hx2, !map_length; reflexivity).
  set (n := INR (length l)).
  assert (A1 : mSx l1 = mSx l) by (apply (Sm_proj_ext (fun x _ => x)); congruence).
  assert (A3 : mSxx l1 = mSxx l) by (apply (Sm_proj_ext (fun x _ => x * x)); congruence).
  assert (Hn1 : Sm (fun _ : pt => 1) l = n) by (rewrite Sm_const; unfold n; ring).
  assert (B1 : mSx l2 = al * mSx l + be * n).
  { transitivity (Sm (fun p => px p) (map T l)); [exact (Sm_proj_ext (fun x _ => x) l2 (map T l) Hx2 Hy2)|].
    rewrite Sm_map, <- Hn1. apply Sm_lin2. intros p _. unfold T, shift_scale, px. simpl. ring. }
  assert (B3 : mSxx l2 = al * al * mSxx l + 2 * al * be * mSx l + be * be * n).
  { transitivity (Sm (fun p => px p * px p) (map T l)); [exact (Sm_proj_ext (fun x _ => x * x) l2 (map T l) Hx2 Hy2)|].
    rewrite Sm_map, <- Hn1. apply Sm_lin3. intros p _. unfold T, shift_scale, px. simpl. ring. }
  (* the residual sum *)
  assert (S1 : fs_ssr fs = Sm (fun p => wres (fs_ax fs) (fs_bx fs) p * wres (fs_ax fs) (fs_bx fs) p) l).
  { rewrite Hssr. unfold wres.
    apply (Sm_proj_ext (fun x y => (y - fs_ax fs - fs_bx fs * x) * (y - fs_ax fs - fs_bx fs * x))); congruence. }
  assert (S2 : fs_ssr fs' = ga * ga * fs_ssr fs).
  { rewrite Hssr', S1. unfold wres.
    transitivity (Sm (fun p => (py p - fs_ax fs' - fs_bx fs' * px p) * (py p - fs_ax fs' - fs_bx fs' * px p)) (map T l)).
    { exact (Sm_proj_ext (fun x y => (y - fs_ax fs' - fs_bx fs' * x) * (y - fs_ax fs' - fs_bx fs' * x)) l2 (map T l) Hx2 Hy2). }
    rewrite Sm_map, <- Sm_scal. apply Sm_ext. intros p _. rewrite Ea, Eb.
    unfold T, shift_scale, px, py. simpl. field. exact Hal. }
  cbv zeta in Hsol, Hsol'. rewrite L1, A1, A3 in Hsol. rewrite L2, B1, B3 in Hsol'. fold n in Hsol, Hsol'.
  destruct Hsol as [_ _ Hd Hva Hvb Hcab Hua Hub]. destruct Hsol' as [_ _ Hd' Hva' Hvb' Hcab' Hua' Hub'].
  set (D := n * mSxx l - mSx l * mSx l) in *.
  assert (HD' : n * (al * al * mSxx l + 2 * al * be * mSx l + be * be * n)
                - (al * mSx l + be * n) * (al * mSx l + be * n) = al * al * D) by (unfold D; ring).
  rewrite HD' in Hva', Hvb', Hcab', Hd'.
  assert (HD0 : D <> 0) by lra.
  assert (Hn2 : n - 2 <> 0).
  { assert (3 <= n) by (unfold n; rewrite <- L1; replace 3 with (INR 3) by (simpl; lra); apply le_INR; exact Hl3). lra. }
  rewrite S2 in Hva', Hvb', Hcab'.
  split; [exact S2|].
  assert (Vb : fs_bu fs' * fs_bu fs' = (ga / al) * (ga / al) * (fs_bu fs * fs_bu fs)).
  { rewrite Hvb', Hvb. field. repeat split; assumption. }
  split.
  { (* non-negative numbers with equal squares *)
    assert (Hq : 0 <= Rabs (ga / al) * fs_bu fs) by (apply Rmult_le_pos; [apply Rabs_pos|exact Hub]).
    assert (Hs : fs_bu fs' * fs_bu fs' = (Rabs (ga / al) * fs_bu fs) * (Rabs (ga / al) * fs_bu fs)).
    { rewrite Vb. replace (Rabs (ga / al) * fs_bu fs * (Rabs (ga / al) * fs_bu fs))
        with ((Rabs (ga / al) * Rabs (ga / al)) * (fs_bu fs * fs_bu fs)) by ring.
      rewrite <- Rabs_mult, Rabs_pos_eq by nra. reflexivity. }
    apply Rsqr_inj; [exact Hub'|exact Hq|exact Hs]. }
  split.
  - rewrite Hva', Hva, Hcab, Hvb. field. repeat split; assumption.
  - rewrite Hcab', Hcab, Hvb. field. repeat split; assumption.
Qed.

(* ================= weighted least squares: the WHOLE result is equivariant too =================
   (same uncertainties u(y_i)): ssr' = ga^2 ssr;  u(b') = u(b)/|al|;
   u(a')^2 = u(a)^2 - 2 (be/al) cov(a,b) + (be/al)^2 u(b)^2;  cov(a',b') = (cov(a,b) - (be/al) u(b)^2)/al
   -- the covariance matrix (X^T W X)^-1 does not involve y, so ga does not enter it *)
Theorem wls_full_equivariant (l : list pt) al be ga de dof fs fs' :
  al <> 0 ->
  g_line_fit_wls RNum (map px l) (map py l) (map pu l) dof = Ok fs ->
  g_line_fit_wls RNum (map (fun p => al * px p + be) l) (map (fun p => ga * py p + de) l) (map pu l) dof = Ok fs' ->
  let cab := fs_r fs * fs_au fs * fs_bu fs in
  fs_ssr fs' = ga * ga * fs_ssr fs /\
  fs_bu fs' = fs_bu fs / Rabs al /\
  fs_au fs' * fs_au fs' = fs_au fs * fs_au fs - 2 * (be / al) * cab + (be / al) * (be / al) * (fs_bu fs * fs_bu fs) /\
  fs_r fs' * fs_au fs' * fs_bu fs' = (cab - be / al * (fs_bu fs * fs_bu fs)) / al.
Proof.
  intros Hal H H'. cbv zeta.
  destruct (wls_values_equivariant l al be ga de dof fs fs' Hal H H') as (Eb & Ea & _ & _).
  apply wls_sound in H. destruct H as (l1 & Ex & Ey & Eu & _ & Hspec & _ & _).
  apply wls_sound in H'. destruct H' as (l2 & Ex' & Ey' & Eu' & _ & Hspec' & _ & _).
  set (T := shift_scale al be ga de).
  assert (E1 : l1 = l) by (symmetry; apply pts_eq; assumption).
  assert (E2 : l2 = map T l).
  { symmetry; apply pts_eq; rewrite map_map.
    - rewrite <- Ex'. apply map_ext. intros p. reflexivity.
    - rewrite <- Ey'. apply map_ext. intros p. reflexivity.
    - rewrite <- Eu'. apply map_ext. intros p. reflexivity. }
  subst l1 l2.
  assert (HuT : forall p, pu (T p) = pu p) by (intros p; reflexivity).
  assert (B0 : wS (map T l) = wS l) by (unfold wS; rewrite Sw_map by exact HuT; reflexivity).
  assert (B1 : wSx (map T l) = al * wSx l + be * wS l).
  { unfold wSx, wS. rewrite Sw_map by exact HuT. apply Sw_lin2. intros p _. unfold T, shift_scale, px. simpl. ring. }
  assert (B3 : wSxx (map T l) = al * al * wSxx l + 2 * al * be * wSx l + be * be * wS l).
  { unfold wSxx, wSx, wS. rewrite Sw_map by exact HuT. apply Sw_lin3. intros p _. unfold T, shift_scale, px. simpl. ring. }
  destruct Hspec as [Hw _ _ Hd Hva Hvb Hcab Hsa Hsb Hssr].
  destruct Hspec' as [_ _ _ Hd' Hva' Hvb' Hcab' Hsa' Hsb' Hssr'].
  assert (S2 : fs_ssr fs' = ga * ga * fs_ssr fs).
  { rewrite Hssr', Hssr. rewrite Sw_map by exact HuT. unfold Sw. rewrite <- Sm_scal. apply Sm_ext. intros p Hp.
    rewrite Ea, Eb. unfold wres, T, shift_scale, px, py, pu. simpl.
    pose proof (Hw p Hp) as Hu. unfold pu in Hu. field. split; assumption. }
  unfold wDet in *. rewrite B0, B1, B3 in Hva', Hvb', Hcab', Hd'.
  set (D := wS l * wSxx l - wSx l * wSx l) in *.
  assert (HD' : wS l * (al * al * wSxx l + 2 * al * be * wSx l + be * be * wS l)
                - (al * wSx l + be * wS l) * (al * wSx l + be * wS l) = al * al * D) by (unfold D; ring).
  rewrite HD' in Hva', Hvb', Hcab', Hd'.
  assert (HD0 : D <> 0) by lra.
  split; [exact S2|].
  assert (Vb : fs_bu fs' * fs_bu fs' = fs_bu fs * fs_bu fs / (al * al)).
  { rewrite Hvb', Hvb. field. split; assumption. }
  assert (Hab : 0 < Rabs al) by (apply Rabs_pos_lt; exact Hal).
  split.
  { assert (Hq : 0 <= fs_bu fs / Rabs al) by (apply Rlt_le, Rdiv_lt_0_compat; assumption).
    assert (Hs : fs_bu fs' * fs_bu fs' = (fs_bu fs / Rabs al) * (fs_bu fs / Rabs al)).
    { rewrite Vb. replace (fs_bu fs / Rabs al * (fs_bu fs / Rabs al)) with (fs_bu fs * fs_bu fs / (Rabs al * Rabs al)) by (field; lra).
      rewrite <- Rabs_mult, Rabs_pos_eq by nra. reflexivity. }
    apply Rsqr_inj; [apply Rlt_le; exact Hsb'|exact Hq|exact Hs]. }
  split.
  - rewrite Hva', Hva, Hcab, Hvb. field. split; assumption.
  - rewrite Hcab', Hcab, Hvb. field. split; assumption.
Qed.

(* ================= residual-scaled weighted least squares (line_fit_rwls) =================
   same scale factors s_i: values as above, ssr' = ga^2 ssr, same dof, and -- sigma^2 = ssr/df
   scaling with ga^2 -- the covariance matrix transforms as for ordinary least squares *)
Theorem rwls_full_equivariant (l : list pt) al be ga de dof fs fs' :
  al <> 0 ->
  g_line_fit_rwls RNum (map px l) (map py l) (map pu l) dof = Ok fs ->
  g_line_fit_rwls RNum (map (fun p => al * px p + be) l) (map (fun p => ga * py p + de) l) (map pu l) dof = Ok fs' ->
  let cab := fs_r fs * fs_au fs * fs_bu fs in
  fs_bx fs' = ga * fs_bx fs / al /\ fs_ax fs' = ga * fs_ax fs + de - ga * fs_bx fs / al * be /\
  fs_df fs' = fs_df fs /\ fs_n fs' = fs_n fs /\
  fs_ssr fs' = ga * ga * fs_ssr fs /\
  fs_bu fs' = Rabs (ga / al) * fs_bu fs /\
  fs_au fs' * fs_au fs' = ga * ga * (fs_au fs * fs_au fs - 2 * (be / al) * cab + (be / al) * (be / al) * (fs_bu fs * fs_bu fs)) /\
  fs_r fs' * fs_au fs' * fs_bu fs' = ga * ga / al * (cab - be / al * (fs_bu fs * fs_bu fs)).
Proof.
  intros Hal H H'. cbv zeta.
  apply rwls_sound in H. destruct H as (l1 & d & Ex & Ey & Eu & Hw & Hdr & Hdf & Hd0 & _ & Hsol & Hssr & Hn).
  apply rwls_sound in H'. destruct H' as (l2 & d' & Ex' & Ey' & Eu' & _ & Hdr' & Hdf' & Hd0' & _ & Hsol' & Hssr' & Hn').
  set (T := shift_scale al be ga de).
  assert (E1 : l1 = l) by (symmetry; apply pts_eq; assumption).
  assert (E2 : l2 = map T l).
  { symmetry; apply pts_eq; rewrite map_map.
    - rewrite <- Ex'. apply map_ext. intros p. reflexivity.
    - rewrite <- Ey'. apply map_ext. intros p. reflexivity.
    - rewrite <- Eu'. apply map_ext. intros p. reflexivity. }
  subst l1 l2.
  assert (Edf : fs_df fs' = fs_df fs).
  { unfold dof_rule in Hdr, Hdr'. rewrite map_length in Hdr'. destruct dof; [rewrite Hdr, Hdr'; reflexivity| |contradiction].
    destruct Hdr as [_ Hdr], Hdr' as [_ Hdr']. rewrite Hdr, Hdr'. reflexivity. }
  assert (Ed : d' = d) by (rewrite Hdf, Hdf' in Edf; injection Edf as Edf; exact Edf).
  subst d'.
  assert (HuT : forall p, pu (T p) = pu p) by (intros p; reflexivity).
  assert (B0 : wS (map T l) = wS l) by (unfold wS; rewrite Sw_map by exact HuT; reflexivity).
  assert (B1 : wSx (map T l) = al * wSx l + be * wS l).
  { unfold wSx, wS. rewrite Sw_map by exact HuT. apply Sw_lin2. intros p _. unfold T, shift_scale, px. simpl. ring. }
  assert (B2 : wSy (map T l) = ga * wSy l + de * wS l).
  { unfold wSy, wS. rewrite Sw_map by exact HuT. apply Sw_lin2. intros p _. unfold T, shift_scale, py. simpl. ring. }
  assert (B3 : wSxx (map T l) = al * al * wSxx l + 2 * al * be * wSx l + be * be * wS l).
  { unfold wSxx, wSx, wS. rewrite Sw_map by exact HuT. apply Sw_lin3. intros p _. unfold T, shift_scale, px. simpl. ring. }
  assert (B4 : wSxy (map T l) = al * ga * wSxy l + al * de * wSx l + be * ga * wSy l + be * de * wS l).
  { unfold wSxy, wSx, wSy, wS. rewrite Sw_map by exact HuT.
    transitivity (al * ga * Sw (fun p => px p * py p) l + (al * de * Sw px l + (be * ga * Sw py l + be * de * Sw (fun _ => 1) l))); [|ring].
    unfold Sw. rewrite <- !Sm_scal, <- !Sm_plus. apply Sm_ext. intros p _.
    unfold T, shift_scale, px, py, pu. simpl. unfold Rdiv. ring. }
  rewrite B0, B1, B2, B3, B4 in Hsol'.
  destruct Hsol as [H1 H2 Hd Hva Hvb Hcab Hua Hub]. destruct Hsol' as [H1' H2' Hd' Hva' Hvb' Hcab' Hua' Hub'].
  destruct (ne_equivariant _ _ _ _ _ _ _ al be ga de Hal H1 H2) as [G1 G2].
  destruct (ne_unique _ _ _ _ _ _ _ _ _ (Rgt_not_eq _ _ Hd') H1' H2' G1 G2) as [Ea Eb].
  split; [exact Eb|]. split; [exact Ea|]. split; [exact Edf|].
  split; [rewrite Hn, Hn', map_length; reflexivity|].
  assert (S2 : fs_ssr fs' = ga * ga * fs_ssr fs).
  { rewrite Hssr', Hssr. rewrite Sw_map by exact HuT. unfold Sw. rewrite <- Sm_scal. apply Sm_ext. intros p Hp.
    rewrite Ea, Eb. unfold wres, T, shift_scale, px, py, pu. simpl.
    pose proof (Hw p Hp) as Hu. unfold pu in Hu. field. split; assumption. }
  set (D := wS l * wSxx l - wSx l * wSx l) in *.
  assert (HD' : wS l * (al * al * wSxx l + 2 * al * be * wSx l + be * be * wS l)
                - (al * wSx l + be * wS l) * (al * wSx l + be * wS l) = al * al * D) by (unfold D; ring).
  rewrite HD' in Hva', Hvb', Hcab', Hd'. rewrite S2 in Hva', Hvb', Hcab'.
  assert (HD0 : D <> 0) by lra.
  split; [exact S2|].
  assert (Vb : fs_bu fs' * fs_bu fs' = (ga / al) * (ga / al) * (fs_bu fs * fs_bu fs)).
  { rewrite Hvb', Hvb. field. repeat split; assumption. }
  split.
  { assert (Hq : 0 <= Rabs (ga / al) * fs_bu fs) by (apply Rmult_le_pos; [apply Rabs_pos|exact Hub]).
    assert (Hs : fs_bu fs' * fs_bu fs' = (Rabs (ga / al) * fs_bu fs) * (Rabs (ga / al) * fs_bu fs)).
    { rewrite Vb. replace (Rabs (ga / al) * fs_bu fs * (Rabs (ga / al) * fs_bu fs))
        with ((Rabs (ga / al) * Rabs (ga / al)) * (fs_bu fs * fs_bu fs)) by ring.
      rewrite <- Rabs_mult, Rabs_pos_eq by nra. reflexivity. }
    apply Rsqr_inj; [exact Hub'|exact Hq|exact Hs]. }
  split.
  - rewrite Hva', Hva, Hcab, Hvb. field. repeat split; assumption.
  - rewrite Hcab', Hcab, Hvb. field. repeat split; assumption.
Qed.

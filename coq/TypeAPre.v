(* TypeAPre.v -- the three list combinators the generated estimator formulas
   (gen/Gen_type_a_est.v) are written with: Python's reduce(f, seq, init), a generator
   expression over one sequence, and one over izip(s1, s2) (stops at the shorter), each with
   Python's left-to-right evaluation order and exceptions as Err values. *)
From Coq Require Import List.
From GTCV Require Import Num.
Import ListNotations.

Section Pre.
  Context {A B C : Type}.

  Fixpoint mfoldl (f : A -> B -> res A) (l : list B) (a : A) : res A :=
    match l with
    | [] => Ok a
    | x :: l' => a' <- f a x ;; mfoldl f l' a'
    end.

  Fixpoint mmap (f : A -> res B) (l : list A) : res (list B) :=
    match l with
    | [] => Ok []
    | x :: l' => y <- f x ;; ys <- mmap f l' ;; Ok (y :: ys)
    end.

  Fixpoint mmap2 (f : A -> B -> res C) (l1 : list A) (l2 : list B) : res (list C) :=
    match l1, l2 with
    | x :: l1', y :: l2' => z <- f x y ;; zs <- mmap2 f l1' l2' ;; Ok (z :: zs)
    | _, _ => Ok []
    end.
End Pre.

(* FNum.v -- the binary64 instance of Num (see Num.v) *)
From Coq Require Import ZArith List Bool.
From Coq Require Import PrimFloat FloatOps SpecFloat.
From GTCV Require Import Num.
Import ListNotations.

(* ================= FNum : binary64 ================= *)

Definition sf_eqb (a b : spec_float) : bool :=
  match a, b with
  | S754_zero s, S754_zero s' => Bool.eqb s s'
  | S754_infinity s, S754_infinity s' => Bool.eqb s s'
  | S754_nan, S754_nan => true
  | S754_finite s m e, S754_finite s' m' e' =>
      Bool.eqb s s' && Pos.eqb m m' && Z.eqb e e'
  | _, _ => false
  end.

(* bit-for-bit equality (NaNs form one class) *)
Definition fbits_eqb (x y : float) : bool := sf_eqb (Prim2SF x) (Prim2SF y).

Definition f_is_nan (x : float) : bool := negb (PrimFloat.eqb x x).
Definition f_is_inf (x : float) : bool :=
  PrimFloat.eqb x infinity || PrimFloat.eqb x neg_infinity.

Definition f_of_Z (z : Z) : float :=
  match z with
  | Z0 => PrimFloat.zero
  | Zpos p => SF2Prim (binary_normalize prec emax (Zpos p) 0 false)
  | Zneg p => SF2Prim (binary_normalize prec emax (Zneg p) 0 false)
  end.

Definition f_dyad (m e : Z) : float :=
  SF2Prim (binary_normalize prec emax m e false).

(* exact fsum: all finite summands are integer multiples of 2^-1074 *)
Definition sf_to_Z1074 (s : spec_float) : Z :=
  match s with
  | S754_finite sg m e => (if sg then Z.opp else (fun z => z)) (Z.shiftl (Zpos m) (e + 1074))
  | _ => 0%Z
  end.

Definition f_fsum (l : list float) : res float :=
  if existsb f_is_nan l then Ok nan
  else
    let pinf := existsb (fun x => PrimFloat.eqb x infinity) l in
    let ninf := existsb (fun x => PrimFloat.eqb x neg_infinity) l in
    if pinf && ninf then Err ValueError
    else if pinf then Ok infinity
    else if ninf then Ok neg_infinity
    else
      let z := fold_left (fun acc x => (acc + sf_to_Z1074 (Prim2SF x))%Z) l 0%Z in
      let r := SF2Prim (binary_normalize prec emax z (-1074) false) in
      if f_is_inf r then Err OverflowError else Ok r.

Definition oracle_entry := (fn * list float * res float)%type.

Fixpoint args_eqb (a b : list float) : bool :=
  match a, b with
  | [], [] => true
  | x :: a', y :: b' => fbits_eqb x y && args_eqb a' b'
  | _, _ => false
  end.

Fixpoint oracle_lookup (tbl : list oracle_entry) (f : fn) (args : list float) : res float :=
  match tbl with
  | [] => Err OracleMissing
  | (g, a, r) :: tbl' =>
      if fn_eqb f g && args_eqb args a then r else oracle_lookup tbl' f args
  end.

Definition f_div (x y : float) : res float :=
  if PrimFloat.eqb y PrimFloat.zero then Err ZeroDivisionError else Ok (x / y)%float.

Definition FNum (tbl : list oracle_entry) : Num := {|
  T := float;
  of_Z := f_of_Z;
  dyad := f_dyad;
  c_log10e := 0x1.bcb7b1526e50ep-2%float;
  c_inf := infinity;
  add := PrimFloat.add;
  sub := PrimFloat.sub;
  mul := PrimFloat.mul;
  neg := PrimFloat.opp;
  nabs := PrimFloat.abs;
  div := f_div;
  same := fbits_eqb;
  eqb := PrimFloat.eqb;
  ltb := PrimFloat.ltb;
  leb := PrimFloat.leb;
  is_nan := f_is_nan;
  is_inf := f_is_inf;
  libm1 := fun f x => oracle_lookup tbl f [x];
  libm2 := fun f x y => oracle_lookup tbl f [x; y];
  fsum := f_fsum
|}.


(* Vector.v -- functional model of GTC/vector.py (uid-ordered sparse vectors).
   Definitions only; theorems are in VectorFacts.v.

   A Vector is a list of (key, value) with strictly increasing keys.  Keys are uids
   (context id, counter); Python orders them as tuples.  All five routines of vector.py
   (scale_vector, merge_vectors, merge_weighted_vectors, scale_vector_twice,
   merge_weighted_vectors_twice) and extend_vector are instances of one interleaving loop
   [mloop]; the fast paths of the source (empty operand, w == 1 copy, w1 == w2 == 1,
   identical index lists) produce, element for element, what the loop produces (1.0*x = x
   and x + 0 paths are never taken by the loop), so they are not separate cases here; the
   correspondence check compares whole vectors bit for bit and thereby validates exactly
   this claim on every run. *)
From Coq Require Import ZArith List Bool.
From GTCV Require Import Num.
Import ListNotations.

Definition key := (Z * Z)%type.

Definition kcmp (a b : key) : comparison :=
  match Z.compare (fst a) (fst b) with
  | Eq => Z.compare (snd a) (snd b)
  | c => c
  end.

Definition keqb (a b : key) : bool :=
  match kcmp a b with Eq => true | _ => false end.

Section Vec.
  Variable N : Num.
  Notation V := (T N).

  Definition vec := list (key * V).

  Fixpoint get (v : vec) (k : key) : option V :=
    match v with
    | [] => None
    | (k', x) :: v' => if keqb k k' then Some x else get v' k
    end.

  Definition get0 (v : vec) (k : key) : V :=
    match get v k with Some x => x | None => of_Z N 0 end.

  Definition vmap (f : V -> V) (v : vec) : vec := map (fun kx => (fst kx, f (snd kx))) v.

  (* the interleaving loop of merge_vectors / merge_weighted_vectors[_twice] *)
  Fixpoint mloop (f1 f2 : V -> V) (f12 : V -> V -> V) (v1 : vec) : vec -> vec :=
    match v1 with
    | [] => vmap f2
    | (k1, x1) :: t1 =>
        fix aux (v2 : vec) : vec :=
          match v2 with
          | [] => vmap f1 v1
          | (k2, x2) :: t2 =>
              match kcmp k1 k2 with
              | Eq => (k1, f12 x1 x2) :: mloop f1 f2 f12 t1 t2
              | Lt => (k1, f1 x1) :: mloop f1 f2 f12 t1 v2
              | Gt => (k2, f2 x2) :: aux t2
              end
          end
    end.

  Definition scale (v : vec) (w : V) : vec := vmap (mul N w) v.

  Definition merge (v1 v2 : vec) : vec := mloop (fun x => x) (fun x => x) (add N) v1 v2.

  Definition merge_w (v1 : vec) (w1 : V) (v2 : vec) (w2 : V) : vec :=
    mloop (mul N w1) (mul N w2) (fun x1 x2 => add N (mul N w1 x1) (mul N w2 x2)) v1 v2.

  (* extend_vector v1 v2 = merge_weighted_vectors(v1, 1.0, v2, 0.0) *)
  Definition extend (v1 v2 : vec) : vec := merge_w v1 (of_Z N 1) v2 (of_Z N 0).

  Definition keys (v : vec) : list key := map fst v.

  (* strictly increasing keys: each key is below every later key *)
  Fixpoint sorted (v : vec) : Prop :=
    match v with
    | [] => True
    | (k, _) :: v' => (forall k', In k' (keys v') -> kcmp k k' = Lt) /\ sorted v'
    end.

  Fixpoint sortedb (v : vec) : bool :=
    match v with
    | [] => true
    | (k, _) :: v' =>
        match v' with
        | [] => true
        | (k', _) :: _ => match kcmp k k' with Lt => sortedb v' | _ => false end
        end
    end.
End Vec.

Arguments get {N} v k.
Arguments get0 {N} v k.
Arguments vmap {N} f v.
Arguments mloop {N} f1 f2 f12 v1 _.
Arguments scale {N} v w.
Arguments merge {N} v1 v2.
Arguments merge_w {N} v1 w1 v2 w2.
Arguments extend {N} v1 v2.
Arguments keys {N} v.
Arguments sorted {N} v.
Arguments sortedb {N} v.

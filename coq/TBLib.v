(* TBLib.v -- the small combinator language the translator tools/tr_type_b.py targets for
   GTC/type_b.py (line fits) and type_a.merge.

   The fitting routines are written in *uncertain-number arithmetic over Python lists*:
   every scalar is either a plain number or an uncertain real number, and an operation on
   two plain numbers is Python float arithmetic while any other operation builds a new
   uncertain number through lib.py.  [mval] is that dichotomy, *symbolically*: an uncertain
   number is represented by the expression tree (Kernel.expr) that produces it from objects
   already in the session, so that what a routine returns is an [expr] to which
   ChainRule.eval_un_sound applies.  Definitions only. *)
From Coq Require Import ZArith List Bool.
From GTCV Require Import Num Vector Opres KTypes Kernel.
Import ListNotations.

Section TBLib.
  Variable N : Num.
  Notation V := (T N).
  Notation expr := (Kernel.expr N).

  Inductive mval := MN (v : V) | ME (e : expr).

  Definition toE (m : mval) : expr := match m with MN v => ENum N v | ME e => e end.
  Definition is_ME (m : mval) : bool := match m with ME _ => true | MN _ => false end.

  (* Python float arithmetic on two plain numbers *)
  Definition arith (f : binop) (l r : V) : res V :=
    match f with
    | B_add => Ok (add N l r)
    | B_sub => Ok (sub N l r)
    | B_mul => Ok (mul N l r)
    | B_div => div N l r
    | B_pow => libm2 N F_pow l r
    | B_atan2 => libm2 N F_atan2 l r
    end.

  Definition mbin (f : binop) (a b : mval) : res mval :=
    match a, b with
    | MN l, MN r => v <- arith f l r ;; Ok (MN v)
    | _, _ => Ok (ME (EBin N f (toE a) (toE b)))
    end.

  (* methods that only uncertain numbers have: alpha._sin() ... *)
  Definition mun (f : unop) (a : mval) : res mval :=
    match a with
    | ME e => Ok (ME (EUn N f e))
    | MN _ => Err AttributeError
    end.

  (* unary minus *)
  Definition mneg (a : mval) : res mval :=
    match a with
    | ME e => Ok (ME (EUn N U_neg e))
    | MN v => Ok (MN (neg N v))
    end.

  (* math.sqrt of a plain number *)
  Definition msqrt (a : mval) : res mval :=
    match a with
    | MN v => r <- libm1 N F_sqrt v ;; Ok (MN r)
    | ME _ => Err TypeError
    end.

  (* value(x) : the evaluator of trees is a parameter (it needs the session state) *)
  Definition mvalue (ev : expr -> res V) (m : mval) : res V :=
    match m with MN v => Ok v | ME e => ev e end.

  Definition mlen {A} (l : list A) : mval := MN (of_Z N (Z.of_nat (length l))).

  (* sum(f(el) for el in l): the builtin sum of CPython 3.12.  result = int 0; the first item
     is added generically (0 + item); while the running result is an exact float and the items
     are floats the Neumaier compensated summation is used (f, c); the first item that is not a
     float (an uncertain number) ends that phase (f += c when c is non-zero and finite) and every
     later addition is the generic `result + item`.  Python ints among the data are represented by
     the floats equal to them (exact while partial sums stay below 2^53). *)
  Inductive sacc := SInt | SFloat (f c : V) | SGen (m : mval).

  Definition fin_sum (f c : V) : V :=
    if negb (eqb N c (of_Z N 0)) && negb (is_inf N c) && negb (is_nan N c) then add N f c else f.

  Definition sum_step (a : sacc) (v : mval) : res sacc :=
    match a, v with
    | SInt, MN x => Ok (SFloat (add N (of_Z N 0) x) (dyad N 0 0))
    | SInt, ME _ => m <- mbin B_add (MN (of_Z N 0)) v ;; Ok (SGen m)
    | SFloat f c, MN x =>
        let t := add N f x in
        Ok (SFloat t (if leb N (nabs N x) (nabs N f) then add N c (add N (sub N f t) x)
                      else add N c (add N (sub N x t) f)))
    | SFloat f c, ME _ => m <- mbin B_add (MN (fin_sum f c)) v ;; Ok (SGen m)
    | SGen m, _ => m' <- mbin B_add m v ;; Ok (SGen m')
    end.

  Definition sum_fin (a : sacc) : mval :=
    match a with SInt => MN (of_Z N 0) | SFloat f c => MN (fin_sum f c) | SGen m => m end.

  Definition msum_with {A} (f : A -> res mval) (l : list A) : res mval :=
    a <- fold_left (fun acc el => a <- acc ;; v <- f el ;; sum_step a v) l (Ok SInt) ;; Ok (sum_fin a).

  (* [f(el) for el in l] *)
  Fixpoint mmap_with {A B} (f : A -> res B) (l : list A) : res (list B) :=
    match l with
    | [] => Ok []
    | el :: l' => v <- f el ;; vs <- mmap_with f l' ;; Ok (v :: vs)
    end.

  (* math.fsum(f(el) for el in l) *)
  Definition fsum_with {A} (f : A -> res V) (l : list A) : res mval :=
    vs <- mmap_with f l ;; r <- fsum N vs ;; Ok (MN r).

  Definition zip3 {A B C} (a : list A) (b : list B) (c : list C) : list (A * (B * C)) :=
    combine a (combine b c).
  Definition zip4 {A B C D} (a : list A) (b : list B) (c : list C) (d : list D)
    : list (A * (B * (C * D))) := combine a (combine b (combine c d)).

  (* comparisons are made with the values *)
  Definition mcmp (ev : expr -> res V) (c : V -> V -> bool) (a b : mval) : res bool :=
    l <- mvalue ev a ;; r <- mvalue ev b ;; Ok (c l r).
End TBLib.

Arguments MN {N} v.
Arguments ME {N} e.
Arguments mlen N {A} l.
Arguments msum_with N {A} f l.
Arguments mmap_with {A B} f l.
Arguments fsum_with N {A} f l.

(* FormatF.v -- the binary64 instance of Format.FOps: what is RUN against the implementation.
   Every float is an exact dyadic rational; '%.{p}f' and round(v, n) are correctly rounded in
   CPython (dtoa modes 3 / strtod), so they are computed here exactly in Z; math.log10 and
   10.**e come from tables recorded on the implementation. *)
From Coq Require Import ZArith List Bool.
From Coq Require Import PrimFloat FloatOps SpecFloat.
From GTCV Require Import Num FNum Format.
Import ListNotations.
Local Open Scope Z_scope.

(* sign, mantissa, exponent of a finite float: value = (-1)^s * m * 2^e ; zero -> m = 0 *)
Definition fdecomp (x : float) : option (bool * Z * Z) :=
  match Prim2SF x with
  | S754_zero s => Some (s, 0, 0)
  | S754_finite s m e => Some (s, Zpos m, e)
  | _ => None
  end.

(* a / b rounded to the nearest integer, ties to even (a >= 0, b > 0) *)
Definition rhe_div (a b : Z) : Z :=
  let q := a / b in let r := a mod b in
  if 2 * r <? b then q else if b <? 2 * r then q + 1 else if Z.even q then q else q + 1.

(* |x| * 10^n as a fraction num/den, n any integer *)
Definition scaled_frac (m e n : Z) : Z * Z :=
  (m * 2 ^ (Z.max e 0) * 10 ^ (Z.max n 0), 2 ^ (Z.max (- e) 0) * 10 ^ (Z.max (- n) 0)).

Definition fl_scaled (x : float) (p : Z) : Z :=
  match fdecomp x with
  | Some (_, m, e) => let '(a, b) := scaled_frac m e p in rhe_div a b
  | None => 0
  end.

(* the double nearest to P/Q (P >= 0, Q > 0), ties to even: one sticky bit below >= 64 quotient bits *)
Definition nearest_double (P Q : Z) : float :=
  if P =? 0 then PrimFloat.zero
  else
    let k := Z.max 0 (Z.log2 Q - Z.log2 P + 66) in
    let F := (P * 2 ^ k) / Q in
    let r := (P * 2 ^ k) mod Q in
    let m := 2 * F + (if r =? 0 then 0 else 1) in
    SF2Prim (binary_normalize prec emax m (- k - 1) false).

Definition with_sign (s : bool) (x : float) : float := if s then PrimFloat.opp x else x.

(* float.__round__(x, n): floatobject.c double_round via _Py_dg_dtoa(x, 3, n) and strtod *)
Definition fl_round (x : float) (n : Z) : res float :=
  match fdecomp x with
  | None => Ok x
  | Some (s, m, e) =>
    if 323 <? n then Ok x
    else if n <? -308 then Ok (with_sign s PrimFloat.zero)
    else
      let '(a, b) := scaled_frac m e n in
      let S := rhe_div a b in
      let r := nearest_double (S * 10 ^ (Z.max (- n) 0)) (10 ^ (Z.max n 0)) in
      if f_is_inf r then Err OverflowError else Ok (with_sign s r)
  end.

Definition fl_of_int (n : Z) : res float :=
  let r := SF2Prim (binary_normalize prec emax n 0 false) in
  if f_is_inf r then Err OverflowError else Ok r.

Definition fl_floor (x : float) : res Z :=
  match fdecomp x with
  | Some (s, m, e) =>
      let '(a, b) := scaled_frac m e 0 in
      Ok (if s then - ((a + b - 1) / b) else a / b)
  | None => if f_is_nan x then Err ValueError else Err OverflowError
  end.

Definition fl_rint (x : float) : res Z :=
  match fdecomp x with
  | Some (s, m, e) => let '(a, b) := scaled_frac m e 0 in
                      let r := rhe_div a b in Ok (if s then - r else r)
  | None => if f_is_nan x then Err ValueError else Err OverflowError
  end.

Definition fl_signbit (x : float) : bool :=
  match Prim2SF x with
  | S754_zero s => s | S754_finite s _ _ => s | S754_infinity s => s | S754_nan => false
  end.

Fixpoint p10_lookup (tbl : list (Z * res float)) (e : Z) : res float :=
  match tbl with
  | [] => Err OracleMissing
  | (k, r) :: t => if k =? e then r else p10_lookup t e
  end.

Section Inst.
Variable log_tbl : list oracle_entry.          (* math.log10 calls recorded on the implementation *)
Variable p10_tbl : list (Z * res float).       (* 10. ** e *)

Definition fl_oom (x : float) : res Z :=
  l <- oracle_lookup log_tbl F_log10 [PrimFloat.abs x] ;; fl_floor l.

Definition FlOps : FOps := {|
  FT := float;
  o_is_zero := fun x => PrimFloat.eqb x PrimFloat.zero;
  o_nonfinite := fun x => f_is_inf x || f_is_nan x;
  o_is_nan := f_is_nan;
  o_abs := PrimFloat.abs;
  o_ltb := PrimFloat.ltb;
  o_signbit := fl_signbit;
  o_one := PrimFloat.one;
  o_c001 := 0x1.47ae147ae147bp-7%float;
  o_inf := infinity;
  o_inf_dof := 0x1.86ap+16%float;
  o_oom := fl_oom;
  o_round := fl_round;
  o_p10 := p10_lookup p10_tbl;
  o_div := FNum.f_div;
  o_mul := PrimFloat.mul;
  o_rint := fl_rint;
  o_floor := fl_floor;
  o_of_int := fl_of_int;
  o_scaled := fl_scaled
|}.
End Inst.

(* comparison helpers for the generated case files: -1 = agreement *)
Fixpoint zlist_eqb (a b : list Z) : bool :=
  match a, b with
  | [], [] => true
  | x :: a', y :: b' => (x =? y) && zlist_eqb a' b'
  | _, _ => false
  end.

Definition exn_code (e : exn) : Z :=
  match e with
  | ValueError => 1 | TypeError => 2 | RuntimeError => 3 | ZeroDivisionError => 4 | OverflowError => 5
  | AssertionError => 6 | AttributeError => 7 | KeyError => 8 | IndexError => 9 | NotImplementedError => 10
  | ComplexResult => 11 | OracleMissing => 12 | OtherExn => 13
  end.

(* expected: inl string | inr exception ; result 1000+k: model raised k, 2000: strings differ,
   3000+k: implementation raised k but the model returned a string *)
Definition cmp_str (got : res (list Z)) (want : list Z + exn) : Z :=
  match got, want with
  | Ok s, inl w => if zlist_eqb s w then -1 else 2000
  | Err e, inr w => if exn_eqb e w then -1 else 1000 + exn_code e
  | Err e, inl _ => 1000 + exn_code e
  | Ok _, inr w => 3000 + exn_code w
  end.

Definition cmp_floats (got : res (list float)) (want : list float + exn) : Z :=
  match got, want with
  | Ok s, inl w => if args_eqb s w then -1 else 2000
  | Err e, inr w => if exn_eqb e w then -1 else 1000 + exn_code e
  | Err e, inl _ => 1000 + exn_code e
  | Ok _, inr w => 3000 + exn_code w
  end.

(* ValueFacts.v -- C01: the value of an operation result depends only on the operands'
   values and on whether each operand is an uncertain number or a plain number -- never on
   an operand's role (elementary, intermediate, constant, temporary), i.e. never on its node
   or component vectors.  Proved for EVERY Num instance, hence for the binary64 model that
   is run against the implementation as well as for the reals. *)
From Coq Require Import ZArith List Bool.
From GTCV Require Import Num Vector Opres KTypes Kernel.
From GTCV.gen Require Import Gen_lib_real.
Import ListNotations.

Section ValueFacts.
  Variable N : Num.
  Notation V := (T N).
  Notation ureal := (KTypes.ureal V).

  Definition rmap {A B} (f : A -> B) (r : res A) : res B :=
    match r with Ok a => Ok (f a) | Err e => Err e end.

  (* the value carried by an operation result (None: handed to the complex path) *)
  Definition oval (a b : ureal) (v : opval V) : option V :=
    match v with
    | VObj o => Some (ux o)
    | VSame L => Some (ux a)
    | VSame Rt => Some (ux b)
    | VPlain x => Some x
    | VComplex => None
    end.

  Lemma realize_value (r : opres V) (a b a' b' : ureal) :
    ux a = ux a' -> ux b = ux b' ->
    rmap (oval a b) (realize N r a b) = rmap (oval a' b') (realize N r a' b').
  Proof.
    intros Ha Hb. destruct r as [w|y|y|w y wt|y w1 w2|y|w y|w| | ]; simpl; auto.
    - destruct w; simpl; congruence.
    - destruct w; simpl; congruence.
    - rewrite <- Ha. destruct (g_mul_un N (ux a) (ux a)) as [[]|]; simpl; auto.
  Qed.

  Theorem apply_un_role_irrelevant f (a a' : ureal) :
    ux a = ux a' ->
    rmap (oval a a) (apply_un N f a) = rmap (oval a' a') (apply_un N f a').
  Proof.
    intros Ha. unfold apply_un. rewrite <- Ha.
    destruct (g_unop N f (ux a)) as [r|e]; simpl; auto.
    apply realize_value; auto.
  Qed.

  Theorem apply_bin_role_irrelevant_uu f (a b a' b' : ureal) :
    ux a = ux a' -> ux b = ux b' ->
    rmap (oval a b) (apply_bin N f (OpdU a) (OpdU b)) =
    rmap (oval a' b') (apply_bin N f (OpdU a') (OpdU b')).
  Proof.
    intros Ha Hb. simpl. rewrite <- Ha, <- Hb.
    destruct (g_bin_uu N f (ux a) (ux b)) as [r|e]; simpl; auto.
    apply realize_value; auto.
  Qed.

  Theorem apply_bin_role_irrelevant_un f (a a' : ureal) (v : V) :
    ux a = ux a' ->
    rmap (oval a a) (apply_bin N f (OpdU a) (OpdN v)) =
    rmap (oval a' a') (apply_bin N f (OpdU a') (OpdN v)).
  Proof.
    intros Ha. simpl. rewrite <- Ha.
    destruct (g_bin_un N f (ux a) v) as [r|e]; simpl; auto.
    apply realize_value; auto.
  Qed.

  Theorem apply_bin_role_irrelevant_nu f (b b' : ureal) (v : V) :
    ux b = ux b' ->
    rmap (oval b b) (apply_bin N f (OpdN v) (OpdU b)) =
    rmap (oval b' b') (apply_bin N f (OpdN v) (OpdU b')).
  Proof.
    intros Hb. simpl. rewrite <- Hb.
    destruct (g_bin_nu N f v (ux b)) as [r|e]; simpl; auto.
    apply realize_value; auto.
  Qed.
End ValueFacts.

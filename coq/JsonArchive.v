(* JsonArchive.v -- the frozen archive (what Archive._freeze leaves behind: leaf table,
   intermediate table, tagged reals / complexes with their component vectors) and the JSON
   document GTC/json_format.py builds from it (archive_to_json and its helpers), as a tree of
   coq/Json.v.  Hand-written from json_format.py 31-36, 73-215; tied to the source by the
   correspondence run, which rebuilds the abstract archive from the private fields of a real
   frozen Archive, evaluates [json_encode] inside coqc and compares the tree with the document
   the implementation wrote, member for member and in order. *)
From Coq Require Import List Bool Ascii String ZArith NArith DecimalString.
From GTCV Require Import Num Regex Json.
Import ListNotations.
Local Open Scope string_scope.

(* uids: (context id, serial) for elementary, (context id, serial, 0) for intermediate nodes;
   both are held as a pair of naturals, the trailing 0 is printed by [repr_i] *)
Definition uid := (BinNums.N * BinNums.N)%type.

Definition dec (n : BinNums.N) : string := NilZero.string_of_uint (N.to_uint n).
(* repr() of a tuple of ints *)
Definition repr_e (u : uid) : string := "(" ++ dec (fst u) ++ ", " ++ dec (snd u) ++ ")".
Definition repr_i (u : uid) : string := "(" ++ dec (fst u) ++ ", " ++ dec (snd u) ++ ", 0)".

Section Enc.
Variable NM : Num.
Notation num := (T NM).
Notation json := (json NM).

Record leaf := mkLeaf {
  l_uid : uid;
  l_label : option string;
  l_u : num;
  l_df : option num;                       (* None = infinite degrees of freedom *)
  l_indep : bool;
  l_complex : option (uid * uid);          (* hasattr(node,'complex') *)
  l_corr : option (list (uid * num));      (* hasattr(node,'correlation'): list of items *)
  l_ens : option (list uid)                (* hasattr(node,'ensemble') *)
}.

Definition vec := list (uid * num).

Inductive treal :=
| TElem (x : num) (u : uid)
| TInterm (value : num) (label : option string) (u : uid) (uc dc ic : vec).

Record tcomplex := mkTC { c_re : string; c_im : string; c_label : option string }.

Record interm := mkInterm { i_label : option string; i_u : num; i_df : option num }.

Record farchive := mkArchive {
  a_leaves : list leaf;                    (* _leaf_nodes (key = uid of the node) *)
  a_treal : list (string * treal);         (* _tagged_real *)
  a_tcomplex : list (string * tcomplex);   (* _tagged_complex *)
  a_ureal : list (string * treal);         (* _untagged_real *)
  a_interm : list (uid * interm)           (* _intermediate_uids *)
}.

Definition jlabel (l : option string) : json := match l with Some s => JStr s | None => JNull end.
Definition jdf (d : option num) : json := match d with Some x => JNum x | None => JNull end.

Definition jvec (r : uid -> string) (v : vec) : json :=
  JObj [("CLASS", JStr "Vector");
        ("index", JArr (map (fun p => JStr (r (fst p))) v));
        ("value", JArr (map (fun p => JNum (snd p)) v))].

Definition jleaf (l : leaf) : json :=
  JObj ([("CLASS", JStr "LeafNode");
         ("uid", JStr (repr_e (l_uid l)));
         ("label", jlabel (l_label l));
         ("u", JNum (l_u l));
         ("df", jdf (l_df l));
         ("independent", JBool (l_indep l))]
        ++ match l_complex l with
           | Some (a, b) => [("complex", JArr [JStr (repr_e a); JStr (repr_e b)])]
           | None => []
           end
        ++ match l_corr l with
           | Some c => [("correlation", JObj (map (fun p => (repr_e (fst p), JNum (snd p))) c))]
           | None => []
           end
        ++ match l_ens l with
           | Some e => [("ensemble", JArr (map (fun u => JStr (repr_e u)) e))]
           | None => []
           end).

Definition jtreal (t : treal) : json :=
  match t with
  | TElem x u => JObj [("CLASS", JStr "ElementaryReal"); ("x", JNum x); ("uid", JStr (repr_e u))]
  | TInterm v lab u uc dc ic =>
      JObj [("CLASS", JStr "IntermediateReal"); ("value", JNum v); ("label", jlabel lab);
            ("uid", JStr (repr_i u));
            ("u_components", jvec repr_e uc);
            ("d_components", jvec repr_e dc);
            ("i_components", jvec repr_i ic)]
  end.

Definition jtcomplex (c : tcomplex) : json :=
  JObj [("CLASS", JStr "Complex"); ("n_re", JStr (c_re c)); ("n_im", JStr (c_im c));
        ("label", jlabel (c_label c))].

Definition jinterm (i : interm) : json := JArr [jlabel (i_label i); JNum (i_u i); jdf (i_df i)].

Variable version : string.   (* json_format.JSON_SCHEMA, regenerated from the source *)

Definition json_encode (a : farchive) : json :=
  JObj [("CLASS", JStr "Archive");
        ("version", JStr version);
        ("leaf_nodes", JObj (map (fun l => (repr_e (l_uid l), jleaf l)) (a_leaves a)));
        ("tagged_real", JObj (map (fun p => (fst p, jtreal (snd p))) (a_treal a)));
        ("tagged_complex", JObj (map (fun p => (fst p, jtcomplex (snd p))) (a_tcomplex a)));
        ("untagged_real", JObj (map (fun p => (fst p, jtreal (snd p))) (a_ureal a)));
        ("intermediate_uids", JObj (map (fun p => (repr_i (fst p), jinterm (snd p))) (a_interm a)))].

(* ---------- well-formedness: what the declaration functions of GTC guarantee ---------- *)
Definition nonneg (x : num) : Prop := ltb NM x (of_Z NM 0) = false.
Definition df_ok (d : option num) : Prop :=
  match d with Some x => ltb NM x (of_Z NM 1) = false | None => True end.

Definition wf_leaf (l : leaf) : Prop :=
  nonneg (l_u l) /\ df_ok (l_df l) /\
  match l_corr l with Some c => c <> [] | None => True end.   (* a Leaf's correlation holds itself *)

Definition wf_interm (i : interm) : Prop := df_ok (i_df i).

(* tags are identifier-like names: [A-Za-z_][A-Za-z0-9_]* *)
Definition ident_start (c : ascii) : bool :=
  cmem [(97%N, 122%N); (65%N, 90%N); (95%N, 95%N)] c.
Definition ident_char (c : ascii) : bool :=
  cmem [(97%N, 122%N); (65%N, 90%N); (48%N, 57%N); (95%N, 95%N)] c.
Definition is_ident (s : string) : bool :=
  match s with
  | EmptyString => false
  | String c r => ident_start c && forallb ident_char (list_ascii_of_string r)
  end.

(* the names under which the components of a tagged complex are filed *)
Definition component_name (names : list string) (k : string) : Prop :=
  exists t, In t names /\ (k = t ++ "_re" \/ k = t ++ "_im").

Definition wf (a : farchive) : Prop :=
  Forall wf_leaf (a_leaves a) /\
  Forall (fun p => wf_interm (snd p)) (a_interm a) /\
  Forall (fun p => component_name (map fst (a_tcomplex a)) (fst p)) (a_ureal a).

Definition ident_tags (a : farchive) : Prop :=
  Forall (fun p => is_ident (fst p) = true) (a_treal a) /\
  Forall (fun p => is_ident (fst p) = true) (a_tcomplex a).

End Enc.

Arguments TElem {NM} x u.
Arguments TInterm {NM} value label u uc dc ic.

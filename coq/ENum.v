(* ENum.v -- a third instance of Num: the EXTENDED REALS  R + {+inf, -inf, NaN}  with IEEE-754
   semantics for the special values (every comparison with NaN is false, inf - inf = NaN,
   0 * inf = NaN, x / inf = 0, ...) and exact arithmetic on the finite part (no rounding, no
   overflow).  It is the domain the argument-validation theorems of property C11 quantify over:
   "all argument tuples over the extended reals incl. NaN and +/-inf".  (RNum cannot serve: it has
   no NaN, and `u < 0` being FALSE for NaN is exactly what these theorems are about.)
   Python's ZeroDivisionError / math-domain ValueError are explicit, as in RNum. *)
From Coq Require Import ZArith List Bool Reals Lra.
From GTCV Require Import Num RNum.
Import ListNotations.
Local Open Scope R_scope.

Inductive ext := Fin (r : R) | PInf | NInf | ENaN.

Definition e_neg (x : ext) : ext :=
  match x with Fin r => Fin (- r) | PInf => NInf | NInf => PInf | ENaN => ENaN end.

Definition e_abs (x : ext) : ext :=
  match x with Fin r => Fin (Rabs r) | PInf => PInf | NInf => PInf | ENaN => ENaN end.

Definition e_add (x y : ext) : ext :=
  match x, y with
  | ENaN, _ | _, ENaN => ENaN
  | Fin a, Fin b => Fin (a + b)
  | PInf, NInf | NInf, PInf => ENaN
  | PInf, _ | _, PInf => PInf
  | NInf, _ | _, NInf => NInf
  end.

Definition e_sub (x y : ext) : ext := e_add x (e_neg y).

(* sign of a finite number decides inf * finite *)
Definition inf_times (pos : bool) (r : R) : ext :=
  if Rlt_dec 0 r then (if pos then PInf else NInf)
  else if Rlt_dec r 0 then (if pos then NInf else PInf)
  else ENaN.

Definition e_mul (x y : ext) : ext :=
  match x, y with
  | ENaN, _ | _, ENaN => ENaN
  | Fin a, Fin b => Fin (a * b)
  | PInf, Fin b => inf_times true b
  | NInf, Fin b => inf_times false b
  | Fin a, PInf => inf_times true a
  | Fin a, NInf => inf_times false a
  | PInf, PInf | NInf, NInf => PInf
  | PInf, NInf | NInf, PInf => NInf
  end.

(* Python float division: ZeroDivisionError when the divisor compares equal to zero *)
Definition e_div (x y : ext) : res ext :=
  match y with
  | Fin b => if Req_EM_T b 0 then Err ZeroDivisionError
             else match x with
                  | Fin a => Ok (Fin (a / b))
                  | PInf => Ok (inf_times true b)
                  | NInf => Ok (inf_times false b)
                  | ENaN => Ok ENaN
                  end
  | ENaN => Ok ENaN
  | PInf | NInf => match x with Fin _ => Ok (Fin 0) | _ => Ok ENaN end
  end.

Definition e_eqb (x y : ext) : bool :=
  match x, y with
  | Fin a, Fin b => Reqb a b
  | PInf, PInf | NInf, NInf => true
  | _, _ => false
  end.

Definition e_ltb (x y : ext) : bool :=
  match x, y with
  | ENaN, _ | _, ENaN => false
  | Fin a, Fin b => Rltb a b
  | NInf, NInf => false
  | NInf, _ => true
  | _, NInf => false
  | PInf, _ => false
  | _, PInf => true
  end.

Definition e_leb (x y : ext) : bool :=
  match x, y with
  | ENaN, _ | _, ENaN => false
  | Fin a, Fin b => Rleb a b
  | NInf, _ => true
  | _, NInf => false
  | _, PInf => true
  | PInf, _ => false
  end.

Definition e_same (x y : ext) : bool :=
  match x, y with
  | Fin a, Fin b => Reqb a b
  | PInf, PInf | NInf, NInf | ENaN, ENaN => true
  | _, _ => false
  end.

Definition e_is_nan (x : ext) : bool := match x with ENaN => true | _ => false end.
Definition e_is_inf (x : ext) : bool := match x with PInf | NInf => true | _ => false end.

(* math.sqrt: domain error below zero, sqrt(inf) = inf, sqrt(nan) = nan; every other libm
   function is lifted from RNum on finite arguments and is not used by the C11 model *)
Definition e_libm1 (f : fn) (x : ext) : res ext :=
  match f, x with
  | F_sqrt, Fin r => if Rle_dec 0 r then Ok (Fin (sqrt r)) else Err ValueError
  | F_sqrt, PInf => Ok PInf
  | F_sqrt, NInf => Err ValueError
  | F_sqrt, ENaN => Ok ENaN
  | _, Fin r => match R_libm1 f r with Ok y => Ok (Fin y) | Err e => Err e end
  | _, _ => Err OtherExn
  end.

Definition e_libm2 (f : fn) (x y : ext) : res ext :=
  match x, y with
  | Fin a, Fin b => match R_libm2 f a b with Ok z => Ok (Fin z) | Err e => Err e end
  | _, _ => Err OtherExn
  end.

Definition ENum : Num := {|
  T := ext;
  of_Z := fun z => Fin (IZR z);
  dyad := fun m e => Fin (IZR m * powerRZ 2 e);
  c_log10e := Fin (/ ln 10);
  c_inf := PInf;
  add := e_add;
  sub := e_sub;
  mul := e_mul;
  neg := e_neg;
  nabs := e_abs;
  div := e_div;
  same := e_same;
  eqb := e_eqb;
  ltb := e_ltb;
  leb := e_leb;
  is_nan := e_is_nan;
  is_inf := e_is_inf;
  libm1 := e_libm1;
  libm2 := e_libm2;
  fsum := fun l => Ok (fold_right e_add (Fin 0) l)
|}.

(* ---------- reflection of the real comparisons (used by every case analysis) ---------- *)
Lemma Rltb_true a b : Rltb a b = true <-> a < b.
Proof. unfold Rltb. destruct (Rlt_dec a b); split; intros; auto; try discriminate; contradiction. Qed.
Lemma Rltb_false a b : Rltb a b = false <-> ~ a < b.
Proof. unfold Rltb. destruct (Rlt_dec a b); split; intros; auto; try discriminate; contradiction. Qed.
Lemma Rleb_true a b : Rleb a b = true <-> a <= b.
Proof. unfold Rleb. destruct (Rle_dec a b); split; intros; auto; try discriminate; contradiction. Qed.
Lemma Rleb_false a b : Rleb a b = false <-> ~ a <= b.
Proof. unfold Rleb. destruct (Rle_dec a b); split; intros; auto; try discriminate; contradiction. Qed.
Lemma Reqb_true a b : Reqb a b = true <-> a = b.
Proof. unfold Reqb. destruct (Req_EM_T a b); split; intros; auto; try discriminate; contradiction. Qed.
Lemma Reqb_false a b : Reqb a b = false <-> a <> b.
Proof. unfold Reqb. destruct (Req_EM_T a b); split; intros; auto; try discriminate; contradiction. Qed.

(* DerivTable.v -- each GENERATED real function body of gen/Gen_lib_real.v (translated from
   GTC/lib.py on every run), instantiated at the reals, returns the mathematical function's
   value and, as the weight applied to the operand's component vectors, its derivative.
   These lemmas are re-checked against the regenerated file on every run: editing a value
   or derivative formula in lib.py breaks the corresponding lemma here. *)
From Coq Require Import ZArith List Bool Reals Lia Lra Psatz.
From Coquelicot Require Import Coquelicot.
From GTCV Require Import Num RNum Vector Opres.
From GTCV.gen Require Import Gen_lib_real.
Local Open Scope R_scope.

(* ---------- evaluation of generated code at RNum ---------- *)
Ltac rn_unfold H :=
  cbv beta iota zeta delta
    [bind libm1 libm2 div RNum R_libm1 R_libm2 R_div T add sub mul neg nabs of_Z dyad
     c_log10e eqb Reqb ltb Rltb leb Rleb negb pow_guard] in H.

Ltac rn_case H :=
  match type of H with
  | context [Rlt_dec ?a ?b] => destruct (Rlt_dec a b)
  | context [Rle_dec ?a ?b] => destruct (Rle_dec a b)
  | context [Req_EM_T ?a ?b] => destruct (Req_EM_T a b)
  end.

Ltac rn_inv H :=
  rn_unfold H;
  repeat (rn_case H; rn_unfold H; try discriminate H);
  try (injection H as H).

Lemma Int_part_IZR z : Int_part (IZR z) = z.
Proof.
  unfold Int_part. rewrite <- (tech_up (IZR z) (z + 1)%Z).
  - lia.
  - rewrite plus_IZR; lra.
  - rewrite plus_IZR; lra.
Qed.

Lemma pow_R_2 x : pow_R x (IZR 2) = Ok (x * x).
Proof.
  unfold pow_R. rewrite Int_part_IZR.
  destruct (Req_EM_T (IZR 2) (IZR 2)) as [_|n]; [|congruence].
  destruct (Req_EM_T x 0); simpl; f_equal; ring.
Qed.

(* what a unary generated body must satisfy *)
Definition un_ok (g : forall N : Num, T N -> res (opres (T N))) (f : R -> R) : Prop :=
  forall x r, g RNum x = Ok r ->
    exists y w, r = OScale L y w /\ y = f x /\ is_derive f x w.

Ltac un_start :=
  intros x r H; match type of H with ?g RNum x = _ => unfold g in H end; rn_inv H;
  subst r; eexists; eexists; (split; [reflexivity | (split; [reflexivity | ])]).

Lemma g_exp_ok : un_ok g_exp exp.
Proof. un_start. auto_derive; auto; ring. Qed.

Lemma g_log_ok : un_ok g_log ln.
Proof. un_start. auto_derive; auto. simpl. field. lra. Qed.

Lemma g_log10_ok : un_ok g_log10 log10_R.
Proof.
  un_start. unfold log10_R. auto_derive; auto.
  assert (ln 10 <> 0) by (rewrite <- ln_1; intros E; apply ln_inv in E; lra).
  field; split; lra.
Qed.

Lemma g_sqrt_ok : un_ok g_sqrt sqrt.
Proof.
  un_start.
  assert (Hx : 0 < x).
  { destruct (Rle_lt_or_eq_dec 0 x) as [Hl|He]; auto. subst x. rewrite sqrt_0 in *. lra. }
  auto_derive; auto. simpl. field. auto.
Qed.

Lemma g_sin_ok : un_ok g_sin sin.
Proof. un_start. auto_derive; auto; ring. Qed.

Lemma g_cos_ok : un_ok g_cos cos.
Proof. un_start. auto_derive; auto; ring. Qed.

Lemma g_tan_ok : un_ok g_tan tan.
Proof.
  un_start. unfold tan.
  assert (Hc : cos x <> 0) by (intros E; rewrite E in *; lra).
  auto_derive; auto. simpl.
  pose proof (sin2_cos2 x) as E. unfold Rsqr in E.
  replace (1 * 1 / (cos x * cos x)) with ((sin x * sin x + cos x * cos x) / (cos x * cos x))
    by (rewrite E; field; auto).
  field; auto.
Qed.

Lemma g_atan_ok : un_ok g_atan atan.
Proof.
  un_start. auto_derive; auto. simpl. field. nra.
Qed.

Lemma g_sinh_ok : un_ok g_sinh sinh.
Proof. un_start. auto_derive; auto; ring. Qed.

Lemma g_cosh_ok : un_ok g_cosh cosh.
Proof. un_start. auto_derive; auto; ring. Qed.

Lemma cosh_pos x : 0 < cosh x.
Proof. unfold cosh. pose proof (exp_pos x). pose proof (exp_pos (-x)). lra. Qed.

Lemma cosh2_sinh2 x : cosh x * cosh x - sinh x * sinh x = 1.
Proof.
  unfold cosh, sinh. 
  assert (E : exp x * exp (-x) = 1) by (rewrite <- exp_plus; replace (x + - x) with 0 by ring; apply exp_0).
  field_simplify. nra.
Qed.

Lemma g_tanh_ok : un_ok g_tanh tanh.
Proof.
  un_start. unfold tanh.
  pose proof (cosh_pos x) as Hc.
  auto_derive; [lra|]. simpl.
  pose proof (cosh2_sinh2 x) as E.
  field_simplify; try lra.
  replace (cosh x ^ 2 - sinh x ^ 2) with 1 by (simpl; lra).
  field; lra.
Qed.

Lemma is_derive_eq (f : R -> R) (x l l' : R) : is_derive f x l' -> l = l' -> is_derive f x l.
Proof. intros H ->; exact H. Qed.

Lemma is_derive_asin x : -1 < x < 1 -> is_derive asin x (1 / sqrt (1 - x²)).
Proof.
  intros Hx. apply is_derive_Reals.
  rewrite <- (derive_pt_asin x Hx). apply derive_pt_eq_1 with (pr := derivable_pt_asin x Hx). reflexivity.
Qed.

Lemma is_derive_acos x : -1 < x < 1 -> is_derive acos x (-1 / sqrt (1 - x²)).
Proof.
  intros Hx. apply is_derive_Reals.
  rewrite <- (derive_pt_acos x Hx). apply derive_pt_eq_1 with (pr := derivable_pt_acos x Hx). reflexivity.
Qed.

Lemma open_unit x : -1 <= x -> x <= 1 -> sqrt ((1 - x) * (1 + x)) <> 0 -> -1 < x < 1.
Proof.
  intros H1 H2 Hs.
  destruct (Req_dec x 1) as [->|]. { replace ((1 - 1) * (1 + 1)) with 0 in Hs by ring. rewrite sqrt_0 in Hs. tauto. }
  destruct (Req_dec x (-1)) as [->|]. { replace ((1 - -1) * (1 + -1)) with 0 in Hs by ring. rewrite sqrt_0 in Hs. tauto. }
  lra.
Qed.

Lemma g_asin_ok : un_ok g_asin asin_R.
Proof.
  un_start. unfold asin_R.
  match goal with Hn : sqrt _ <> 0 |- _ => pose proof (open_unit x ltac:(lra) ltac:(lra) Hn) as Hx end.
  eapply is_derive_eq; [apply is_derive_asin; auto|].
  simpl. unfold Rsqr. replace (1 - x * x) with ((1 - x) * (1 + x)) by ring. field. auto.
Qed.

Lemma g_acos_ok : un_ok g_acos acos_R.
Proof.
  un_start. unfold acos_R.
  match goal with Hn : sqrt _ <> 0 |- _ => pose proof (open_unit x ltac:(lra) ltac:(lra) Hn) as Hx end.
  eapply is_derive_eq; [apply is_derive_acos; auto|].
  simpl. unfold Rsqr. replace (1 - x * x) with ((1 - x) * (1 + x)) by ring. field. auto.
Qed.

Lemma g_asinh_ok : un_ok g_asinh asinh_R.
Proof.
  intros x r H. unfold g_asinh in H.
  cbv beta iota zeta delta [bind libm1 libm2 RNum R_libm1 R_libm2 of_Z] in H.
  rewrite pow_R_2 in H. rn_inv H. subst r.
  eexists; eexists; split; [reflexivity | split; [reflexivity | ]].
  unfold asinh_R. eapply is_derive_eq; [apply is_derive_Reals, derivable_pt_lim_arcsinh|].
  simpl. replace (x * (x * 1) + 1) with (x * x + 1) by ring. field.
  match goal with Hn : sqrt _ <> 0 |- _ => exact Hn end.
Qed.

Lemma g_acosh_ok : un_ok g_acosh acosh_R.
Proof.
  un_start. unfold acosh_R.
  match goal with Hn : sqrt _ <> 0 |- _ => rename Hn into Hs end.
  assert (Hx : 1 < x).
  { destruct (Req_dec x 1) as [->|]; [|lra].
    replace ((1 - 1) * (1 + 1)) with 0 in Hs by ring. rewrite sqrt_0 in Hs. tauto. }
  assert (Hp : 0 < x * x - 1) by nra.
  assert (Hq : 0 < sqrt (x * x - 1)) by (apply sqrt_lt_R0; auto).
  replace ((x - 1) * (x + 1)) with (x * x - 1) in * by ring.
  auto_derive.
  - replace (x * x + - (1)) with (x * x - 1) by ring. repeat split; lra.
  - replace (x * x + - (1)) with (x * x - 1) by ring. field. split; lra.
Qed.

Lemma g_atanh_ok : un_ok g_atanh atanh_R.
Proof.
  un_start. unfold atanh_R.
  auto_derive.
  - repeat split; try lra. apply Rdiv_lt_0_compat; lra.
  - simpl. field. repeat split; lra.
Qed.

Lemma g_neg_ok : un_ok g_neg Ropp.
Proof. un_start. auto_derive; auto. simpl. ring. Qed.

Lemma g_magnitude_ok : un_ok g_magnitude Rabs.
Proof.
  un_start.
  - (* x < 0 *)
    match goal with Hl : x < 0 |- _ => rename Hl into Hneg end.
    apply (is_derive_ext_loc (fun t => - t)).
    + apply (locally_interval _ x (x - 1) 0); simpl; try lra.
      intros y _ Hy. rewrite Rabs_left; auto.
    + auto_derive; auto. replace (1 * 1) with 1 by ring. rewrite Rabs_R1. ring.
  - assert (Hpos : 0 < x) by lra.
    apply (is_derive_ext_loc (fun t => t)).
    + apply (locally_interval _ x 0 (x + 1)); simpl; try lra.
      intros y Hy _. rewrite Rabs_right; lra.
    + auto_derive; auto. replace (1 * 1) with 1 by ring. rewrite Rabs_R1. ring.
Qed.

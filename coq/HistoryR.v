(* HistoryR.v -- the refutation of full history independence (C10), over the reals:
   y = x1 + x2 read once (u = sqrt 2 cached), then r(x1,x2) = 1/2 declared: y keeps reporting
   sqrt 2 although its variance is now 3. *)
From Coq Require Import ZArith List Bool Reals Lra.
From GTCV Require Import Num RNum Vector Opres KTypes Kernel LPU History.
Import ListNotations.
Local Open Scope R_scope.

Definition hk1 : key := (1%Z, 1%Z).
Definition hk2 : key := (1%Z, 2%Z).
Definition hy : KTypes.ureal R := mkU 7 [] [(hk1, 1); (hk2, 1)] [] NoNode.

(* the state after set_correlation(0.5, x1, x2) is LPU.zstate *)
Theorem cache_leaks_history :
  exists (s : KTypes.state R) (y : KTypes.ureal R) (u_cached v_now : R),
    unode y = NoNode /\
    prop_u RNum s y (Some u_cached) = Ok (u_cached, Some u_cached) /\
    std_variance_real RNum s y = Ok v_now /\
    u_cached * u_cached <> v_now.
Proof.
  exists zstate, hy, (sqrt 2), 3. split; [reflexivity|]. split; [reflexivity|]. split.
  - assert (E : leaves_exist zstate (dc hy)).
    { intros k [<-|[<-|[]]]; eexists; reflexivity. }
    assert (S : corr_sym_on zstate (dc hy)).
    { split.
      - intros k k' [<-|[<-|[]]] [<-|[<-|[]]]; reflexivity.
      - intros k [<-|[<-|[]]]; reflexivity. }
    rewrite std_variance_spec by assumption. f_equal.
    unfold dsum, hy, Rs; simpl. unfold corr_get; simpl. cbn [zero of_Z RNum]. lra.
  - rewrite sqrt_sqrt by lra. lra.
Qed.

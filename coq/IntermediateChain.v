(* IntermediateChain.v -- C06: sensitivity and component of uncertainty with respect to a
   declared intermediate result obey the chain rule.  The theorem for the independent /
   dependent vectors (ChainRule.eval_un_sound) is transported to the intermediate vector
   through Swap.eval_un_swap. *)
From Coq Require Import ZArith List Bool Reals Lia Lra.
From Coquelicot Require Import Coquelicot.
From GTCV Require Import Num RNum Vector VectorFacts Opres KTypes Kernel DerivTable ChainRule Swap.
Import ListNotations.
Local Open Scope R_scope.

Notation ureal := (KTypes.ureal R).
Notation state := (KTypes.state R).

Definition all_true (k : key) : bool := true.

Section IC.
  Variable UI : key -> R.       (* u of each declared intermediate (node) *)
  Variable e1 : env.            (* value of each declared intermediate *)
  Variable s : state.
  Variable Gi : nat -> env -> R.   (* what each referenced object denotes as a function of the
                                      intermediates, everything else held fixed *)
  Hypothesis inputs_ok :
    forall i j o c, get_real RNum s i = Ok (j, o, c) -> Den UI all_true e1 (swap RNum o) (Gi i).

  Theorem intermediate_chain_rule (e : Kernel.expr RNum) (w : ureal) :
    regular Gi e1 e -> eval_un RNum s e = Ok (@OpdU RNum w) ->
    ux w = sem Gi e e1 /\
    forall k, exists D, is_derive (fun t => sem Gi e (upd e1 k t)) (e1 k) D /\
                        @Vector.get0 RNum (ic w) k = UI k * D.
  Proof.
    intros Hreg Hev.
    assert (Hin : forall i j o c, get_real RNum (swap_state RNum s) i = Ok (j, o, c) ->
                                  Den UI all_true e1 o (Gi i)).
    { intros i j o c H. rewrite get_real_swap in H.
      destruct (get_real RNum s i) as [[[j0 o0] c0]|e0] eqn:E; [|discriminate].
      cbn [rmap' fst snd] in H. injection H as _ <- _. eapply inputs_ok; eauto. }
    assert (Hev' : eval_un RNum (swap_state RNum s) e = Ok (@OpdU RNum (swap RNum w))).
    { rewrite eval_un_swap, Hev. reflexivity. }
    pose proof (eval_un_sound UI all_true e1 (swap_state RNum s) Gi Hin e _ Hreg Hev') as HD.
    cbn [DenOp] in HD. split.
    - exact (den_val _ _ _ _ _ HD).
    - intros k. destruct (den_der _ _ _ _ _ HD k) as [D [H1 H2]]. exists D. split; [exact H1|].
      unfold comp in H2. cbn [swap uc dc] in H2. rewrite <- H2.
      change (@Vector.get0 RNum [] k) with 0. symmetry; apply Rplus_0_r.
  Qed.

  (* the link to reporting.sensitivity / u_component for a declared intermediate m *)
  Theorem intermediate_reporting (e : Kernel.expr RNum) (w m : ureal) km nd :
    regular Gi e1 e -> eval_un RNum s e = Ok (@OpdU RNum w) ->
    unode m = NodeRef km -> Kernel.assoc (s_nodes s) km = Some nd -> n_u nd = UI km -> 0 < UI km ->
    exists D, is_derive (fun t => sem Gi e (upd e1 km t)) (e1 km) D /\
              u_component RNum s w m = Ok (UI km * D) /\ sensitivity RNum s w m = Ok D.
  Proof.
    intros Hreg Hev Hm Hnd Hu Hpos.
    destruct (intermediate_chain_rule e w Hreg Hev) as [_ Hd].
    destruct (Hd km) as [D [H1 H2]]. exists D. split; [exact H1|].
    unfold u_component, sensitivity, node_of. cbn [T RNum] in *. rewrite Hm, Hnd. cbn [bind].
    change (vget RNum (ic w) km) with (@Vector.get0 RNum (ic w) km). rewrite H2. split; [reflexivity|].
    rewrite Hu. cbn [ltb RNum zero of_Z]. unfold Rltb, zero; cbn [of_Z RNum].
    destruct (Rlt_dec (IZR 0) (UI km)) as [_|n]; [|exfalso; apply n; exact Hpos].
    cbn [div RNum]. unfold R_div. destruct (Req_EM_T (UI km) 0); [lra|]. apply f_equal. field. lra.
  Qed.
End IC.

(* inputs: a freshly declared intermediate denotes "itself"; an object that carries no
   intermediate components denotes a constant *)
Lemma Den_ic_irrelevant U I e0 x u d i i' nd F :
  Den U I e0 (mkU x u d i nd) F -> Den U I e0 (mkU x u d i' nd) F.
Proof. intros [H1 H2 H3 H4 H5 H6]. split; auto. Qed.

Lemma den_swap_intermediate UI e1 (m : ureal) km :
  ic m = [(km, UI km)] -> e1 km = ux m ->
  Den UI all_true e1 (swap RNum m) (fun e => e km).
Proof.
  intros Hic Hv. unfold swap. cbn [T RNum] in *. rewrite Hic.
  apply (Den_ic_irrelevant _ _ _ _ _ _ []). apply (den_leaf_indep UI all_true e1 km (ux m) (unode m)); auto.
Qed.

Lemma den_swap_plain UI e1 (o : ureal) :
  ic o = [] -> Den UI all_true e1 (swap RNum o) (fun _ => ux o).
Proof.
  intros Hic. unfold swap. cbn [T RNum] in *. rewrite Hic. apply den_const.
Qed.

(* consequence: when w depends on x only through m (w = g(m)), and m = f(x), the product of
   sensitivities is the sensitivity of the composition -- the derivative chain rule *)
Lemma chain_product (f g : R -> R) x df dg :
  is_derive f x df -> is_derive g (f x) dg -> is_derive (fun t => g (f t)) x (df * dg).
Proof. intros Hf Hg. apply (is_derive_comp g f x dg df); auto. Qed.

(* ChainRule.v -- C01/C02 core: for every expression tree evaluated by the kernel model
   (with the operator bodies GENERATED from lib.py), the value is the plain real-arithmetic
   value of the tree and the component of uncertainty with respect to every elementary input
   is  u(input) * (partial derivative of the tree's function)  -- by structural induction on
   the tree, no bound on depth or sharing. *)
From Coq Require Import ZArith List Bool Reals Lia Lra Psatz FunctionalExtensionality.
From Coquelicot Require Import Coquelicot.
From GTCV Require Import Num RNum Vector VectorFacts Opres KTypes Kernel DerivTable PowInt.
From GTCV.gen Require Import Gen_lib_real.
Import ListNotations.
Local Open Scope R_scope.

Notation ureal := (KTypes.ureal R).
Notation state := (KTypes.state R).
Notation get0 := (@Vector.get0 RNum).
Notation sorted := (@Vector.sorted RNum).
Notation scale := (@Vector.scale RNum).
Notation merge := (@Vector.merge RNum).
Notation merge_w := (@Vector.merge_w RNum).
Notation keys := (@Vector.keys RNum).

(* ---------- environments: the values of the elementary inputs ---------- *)
Definition env := key -> R.
Definition upd (e : env) (k : key) (t : R) : env := fun k' => if keqb k' k then t else e k'.

Lemma upd_same e k : upd e k (e k) = e.
Proof.
  apply functional_extensionality; intros k'. unfold upd.
  destruct (keqb k' k) eqn:E; auto. apply keqb_eq in E; subst; auto.
Qed.

Lemma upd_eq e k t : upd e k t k = t.
Proof. unfold upd; rewrite keqb_refl; auto. Qed.

Lemma upd_neq e k k' t : k' <> k -> upd e k t k' = e k'.
Proof.
  intros H; unfold upd. destruct (keqb k' k) eqn:E; auto. apply keqb_eq in E; tauto.
Qed.

(* the component of uncertainty carried for input k (a key lives in exactly one of the
   two vectors, see [WFv]) *)
Definition comp (o : ureal) (k : key) : R := get0 (uc o) k + get0 (dc o) k.

Section Den.
  Variable U : key -> R.       (* standard uncertainty of each elementary input *)
  Variable I : key -> bool.    (* was the input declared independent *)
  Variable e0 : env.           (* the input values *)

  (* o denotes the function F of the inputs *)
  Record Den (o : ureal) (F : env -> R) : Prop := {
    den_val : ux o = F e0;
    den_su : sorted (uc o);
    den_sd : sorted (dc o);
    den_ku : forall k, In k (keys (uc o)) -> I k = true;
    den_kd : forall k, In k (keys (dc o)) -> I k = false;
    den_der : forall k, exists D,
        is_derive (fun t => F (upd e0 k t)) (e0 k) D /\ comp o k = U k * D }.

  (* ----- inputs ----- *)
  Lemma get0_single_eq k (u : R) : get0 [(k, u)] k = u.
  Proof. unfold get0; simpl. rewrite keqb_refl. reflexivity. Qed.

  Lemma get0_single_neq k k' (u : R) : k' <> k -> get0 [(k, u)] k' = 0.
  Proof.
    intros H. unfold get0; simpl. destruct (keqb k' k) eqn:E; auto.
    apply keqb_eq in E; tauto.
  Qed.

  Lemma get0_nil k : get0 [] k = 0.
  Proof. reflexivity. Qed.

  Lemma sorted_single k (u : R) : sorted [(k, u)].
  Proof. simpl; split; auto; intros ? []. Qed.

  Lemma den_leaf_aux k k' :
    exists D, is_derive (fun t => upd e0 k' t k) (e0 k') D /\
              (if keqb k' k then U k else 0) = U k' * D.
  Proof.
    destruct (keqb k' k) eqn:E.
    - apply keqb_eq in E; subst k'. exists 1. split.
      + apply (is_derive_ext (fun t => t)); [intros t; rewrite upd_eq; auto | auto_derive; auto].
      + ring.
    - assert (Hn : k <> k') by (intros ->; rewrite keqb_refl in E; discriminate).
      exists 0. split.
      + apply (is_derive_ext (fun _ => e0 k)); [intros t; rewrite upd_neq; auto | auto_derive; auto].
      + ring.
  Qed.

  Lemma get0_single k k' (u : R) : get0 [(k, u)] k' = if keqb k' k then u else 0.
  Proof. unfold Vector.get0; simpl. destruct (keqb k' k); reflexivity. Qed.

  Lemma den_leaf_indep k x nd : e0 k = x -> I k = true ->
    Den (mkU x [(k, U k)] [] [] nd) (fun e => e k).
  Proof.
    intros Hx HI. split.
    - simpl; auto.
    - apply sorted_single.
    - simpl; auto.
    - simpl; intros k' [<-|[]]; auto.
    - simpl; intros k' [].
    - intros k'. destruct (den_leaf_aux k k') as [D [H1 H2]]. exists D; split; auto.
      unfold comp; cbn [uc dc]. rewrite get0_single, get0_nil. rewrite Rplus_0_r. exact H2.
  Qed.

  Lemma den_leaf_dep k x nd : e0 k = x -> I k = false ->
    Den (mkU x [] [(k, U k)] [] nd) (fun e => e k).
  Proof.
    intros Hx HI. split.
    - simpl; auto.
    - simpl; auto.
    - apply sorted_single.
    - simpl; intros k' [].
    - simpl; intros k' [<-|[]]; auto.
    - intros k'. destruct (den_leaf_aux k k') as [D [H1 H2]]. exists D; split; auto.
      unfold comp; cbn [uc dc]. rewrite get0_single, get0_nil. rewrite Rplus_0_l. exact H2.
  Qed.

  Lemma den_const v i nd : Den (mkU v [] [] i nd) (fun _ => v).
  Proof.
    split; simpl; auto; try (intros k []). intros k. exists 0. split.
    - auto_derive; auto.
    - unfold comp; simpl. rewrite !get0_nil. ring.
  Qed.

  Lemma den_ext o F G : (forall e, F e = G e) -> Den o F -> Den o G.
  Proof.
    intros HE [Hv Hu Hd Hku Hkd Hder]. split; auto.
    - rewrite <- HE; auto.
    - intros k. destruct (Hder k) as [D [H1 H2]]. exists D; split; auto.
      eapply is_derive_ext; [|exact H1]. intros t; apply HE.
  Qed.

  (* ----- scaling: a function of one operand ----- *)
  Lemma den_scale a Fa (f : R -> R) y w i :
    Den a Fa -> y = f (Fa e0) -> is_derive f (Fa e0) w ->
    Den (mkU y (scale (uc a) w) (scale (dc a) w) i NoNode) (fun e => f (Fa e)).
  Proof.
    intros [Hv Hu Hd Hku Hkd Hder] Hy Hf. split; simpl; auto.
    - apply sorted_scale; auto.
    - apply sorted_scale; auto.
    - intros k; unfold Vector.scale; rewrite keys_vmap; auto.
    - intros k; unfold Vector.scale; rewrite keys_vmap; auto.
    - intros k. destruct (Hder k) as [D [H1 H2]]. exists (D * w). split.
      + apply (is_derive_comp f (fun t => Fa (upd e0 k t)) (e0 k) w D); auto.
        rewrite upd_same. exact Hf.
      + unfold comp in *; simpl uc; simpl dc. rewrite !get0_scale.
        replace (w * get0 (uc a) k + w * get0 (dc a) k) with (w * (get0 (uc a) k + get0 (dc a) k)) by ring.
        rewrite H2. ring.
  Qed.

  (* ----- merging: a function of two operands ----- *)
  (* f has "total derivative" (wl, wr) at (l, r) along every differentiable curve *)
  Definition bin_der (f : R -> R -> R) (l r wl wr : R) : Prop :=
    forall (A B : R -> R) (t0 da db : R),
      A t0 = l -> B t0 = r -> is_derive A t0 da -> is_derive B t0 db ->
      is_derive (fun t => f (A t) (B t)) t0 (wl * da + wr * db).

  Lemma den_merge_w a b Fa Fb (f : R -> R -> R) y wl wr i :
    Den a Fa -> Den b Fb -> y = f (Fa e0) (Fb e0) -> bin_der f (Fa e0) (Fb e0) wl wr ->
    Den (mkU y (merge_w (uc a) wl (uc b) wr) (merge_w (dc a) wl (dc b) wr) i NoNode)
        (fun e => f (Fa e) (Fb e)).
  Proof.
    intros [Hva Hua Hda Hkua Hkda Hdera] [Hvb Hub Hdb Hkub Hkdb Hderb] Hy Hf. split; simpl; auto.
    - apply sorted_merge_w; auto.
    - apply sorted_merge_w; auto.
    - intros k Hin; apply keys_merge_w in Hin; destruct Hin; auto.
    - intros k Hin; apply keys_merge_w in Hin; destruct Hin; auto.
    - intros k. destruct (Hdera k) as [Da [A1 A2]]. destruct (Hderb k) as [Db [B1 B2]].
      exists (wl * Da + wr * Db). split.
      + apply (Hf (fun t => Fa (upd e0 k t)) (fun t => Fb (upd e0 k t))); auto;
          rewrite upd_same; auto.
      + unfold comp in *; simpl uc; simpl dc. rewrite !get0_merge_w by auto.
        replace (wl * get0 (uc a) k + wr * get0 (uc b) k + (wl * get0 (dc a) k + wr * get0 (dc b) k))
          with (wl * (get0 (uc a) k + get0 (dc a) k) + wr * (get0 (uc b) k + get0 (dc b) k)) by ring.
        rewrite A2, B2. ring.
  Qed.

  Lemma den_merge a b Fa Fb (f : R -> R -> R) y i :
    Den a Fa -> Den b Fb -> y = f (Fa e0) (Fb e0) -> bin_der f (Fa e0) (Fb e0) 1 1 ->
    Den (mkU y (merge (uc a) (uc b)) (merge (dc a) (dc b)) i NoNode)
        (fun e => f (Fa e) (Fb e)).
  Proof.
    intros [Hva Hua Hda Hkua Hkda Hdera] [Hvb Hub Hdb Hkub Hkdb Hderb] Hy Hf. split; simpl; auto.
    - apply sorted_merge; auto.
    - apply sorted_merge; auto.
    - intros k Hin; apply (keys_mloop RNum) in Hin; destruct Hin; auto.
    - intros k Hin; apply (keys_mloop RNum) in Hin; destruct Hin; auto.
    - intros k. destruct (Hdera k) as [Da [A1 A2]]. destruct (Hderb k) as [Db [B1 B2]].
      exists (1 * Da + 1 * Db). split.
      + apply (Hf (fun t => Fa (upd e0 k t)) (fun t => Fb (upd e0 k t))); auto;
          rewrite upd_same; auto.
      + unfold comp in *; simpl uc; simpl dc. rewrite !get0_merge by auto.
        replace (get0 (uc a) k + get0 (uc b) k + (get0 (dc a) k + get0 (dc b) k))
          with ((get0 (uc a) k + get0 (dc a) k) + (get0 (uc b) k + get0 (dc b) k)) by ring.
        rewrite A2, B2. ring.
  Qed.

  (* Vector(copy=...) *)
  Lemma den_copy a Fa i : Den a Fa -> Den (mkU (ux a) (uc a) (dc a) i NoNode) Fa.
  Proof. intros [Hv Hu Hd Hku Hkd Hder]. split; auto. Qed.
End Den.

(* ---------- the plain real-number meaning of operators and functions ---------- *)
Definition unop_R (f : unop) (x : R) : R :=
  match f with
  | U_exp => exp x | U_log => ln x | U_log10 => log10_R x | U_sqrt => sqrt x
  | U_sin => sin x | U_cos => cos x | U_tan => tan x | U_asin => asin_R x
  | U_acos => acos_R x | U_atan => atan x | U_sinh => sinh x | U_cosh => cosh x
  | U_tanh => tanh x | U_asinh => asinh_R x | U_acosh => acosh_R x | U_atanh => atanh_R x
  | U_magnitude => Rabs x | U_mag_squared => x * x
  | U_phase => if Rlt_dec x 0 then PI else 0        (* cmath.phase of a real number *)
  | U_neg => - x | U_pos => x
  end.

Definition binop_R (f : binop) (l r : R) : R :=
  match f with
  | B_add => l + r | B_sub => l - r | B_mul => l * r | B_div => l / r
  | B_pow => pow_sem l r         (* Python's l ** r where it is real: PowInt.v *)
  | B_atan2 => atan2_R l r
  end.

(* ---------- the sixteen analytic functions + magnitude, neg ---------- *)
Lemma g_unop_ok f :
  match f with U_mag_squared | U_phase | U_pos => True | _ => un_ok (fun N => g_unop N f) (unop_R f) end.
Proof.
  destruct f; simpl; auto.
  - exact g_exp_ok. - exact g_log_ok. - exact g_log10_ok. - exact g_sqrt_ok.
  - exact g_sin_ok. - exact g_cos_ok. - exact g_tan_ok. - exact g_asin_ok.
  - exact g_acos_ok. - exact g_atan_ok. - exact g_sinh_ok. - exact g_cosh_ok.
  - exact g_tanh_ok. - exact g_asinh_ok. - exact g_acosh_ok. - exact g_atanh_ok.
  - exact g_magnitude_ok. - exact g_neg_ok.
Qed.

(* ---------- total derivatives of the binary operators ---------- *)
Section BinDer.
  Lemma bd_add l r : bin_der Rplus l r 1 1.
  Proof.
    intros A B t0 da db _ _ HA HB.
    eapply is_derive_eq; [apply (is_derive_plus A B t0 da db HA HB)|].
    change (1 * da + 1 * db = da + db). ring.
  Qed.

  Lemma bd_sub l r : bin_der Rminus l r 1 (-1).
  Proof.
    intros A B t0 da db _ _ HA HB.
    eapply is_derive_eq; [apply (is_derive_minus A B t0 da db HA HB)|].
    change (1 * da + -1 * db = da + - db). ring.
  Qed.

  Lemma bd_mul l r : bin_der Rmult l r r l.
  Proof.
    intros A B t0 da db EA EB HA HB.
    eapply is_derive_eq; [apply (Derive.is_derive_mult A B t0 da db HA HB)|].
    rewrite EA, EB. ring.
  Qed.

  Lemma bd_div l r : r <> 0 -> bin_der Rdiv l r (1 / r) (- (l / r) / r).
  Proof.
    intros Hr A B t0 da db EA EB HA HB.
    eapply is_derive_eq; [apply (is_derive_div A B t0 da db HA HB); rewrite EB; auto|].
    rewrite EA, EB. field. auto.
  Qed.

  Lemma bd_pow l r : 0 < l -> bin_der Rpower l r (r * Rpower l (r - 1)) (ln l * Rpower l r).
  Proof.
    intros Hl A B t0 da db EA EB HA HB. unfold Rpower.
    assert (HA' : ex_derive A t0) by (eexists; eauto).
    assert (HB' : ex_derive B t0) by (eexists; eauto).
    auto_derive.
    - repeat split; auto. rewrite EA; auto.
    - replace (Derive (fun x => A x) t0) with da by (symmetry; apply is_derive_unique; exact HA).
      replace (Derive (fun x => B x) t0) with db by (symmetry; apply is_derive_unique; exact HB).
      rewrite EA, EB.
      replace ((r - 1) * ln l) with (r * ln l + - ln l) by ring.
      rewrite exp_plus, exp_Ropp, exp_ln by auto. field. lra.
  Qed.

  (* atan2(y, x) on the half plane x > 0 *)
  Lemma bd_atan2_right l r : 0 < r ->
    bin_der atan2_R l r (r / (r * r + l * l)) (- l / (r * r + l * l)).
  Proof.
    intros Hr A B t0 da db EA EB HA HB.
    assert (HA' : ex_derive A t0) by (eexists; eauto).
    assert (HB' : ex_derive B t0) by (eexists; eauto).
    apply (is_derive_ext_loc (fun t => atan (A t / B t))).
    - pose proof (ex_derive_continuous B t0 HB') as Hc.
      assert (Hloc : locally t0 (fun t => 0 < B t)).
      { specialize (Hc (fun y : R => 0 < y)). apply Hc.
        apply (open_gt 0 (B t0)). rewrite EB. exact Hr. }
      revert Hloc. apply filter_imp. intros t Ht. unfold atan2_R.
      destruct (Rlt_dec 0 (B t)); tauto.
    - auto_derive.
      + repeat split; auto. rewrite EB; lra.
      + replace (Derive (fun x => A x) t0) with da by (symmetry; apply is_derive_unique; exact HA).
        replace (Derive (fun x => B x) t0) with db by (symmetry; apply is_derive_unique; exact HB).
        rewrite EA, EB. field. split; nra.
  Qed.

  (* the upper and lower half planes: atan2(y, x) = +-pi/2 - atan(x / y) *)
  Lemma atan_inv_neg x : x < 0 -> atan (/ x) = - PI / 2 - atan x.
  Proof.
    intros Hx. replace (/ x) with (- / (- x)) by (field; lra).
    rewrite atan_opp, atan_inv by lra. rewrite atan_opp. lra.
  Qed.

  Lemma atan2_upper y x : 0 < y -> atan2_R y x = PI / 2 - atan (x / y).
  Proof.
    intros Hy. unfold atan2_R.
    destruct (Rlt_dec 0 x) as [Hx|Hx].
    - replace (y / x) with (/ (x / y)) by (field; lra).
      rewrite atan_inv; [reflexivity|]. apply Rdiv_lt_0_compat; lra.
    - destruct (Rlt_dec x 0) as [Hx'|Hx'].
      + destruct (Rle_dec 0 y); [|lra].
        replace (y / x) with (/ (x / y)) by (field; lra).
        rewrite atan_inv_neg; [lra|].
        replace (x / y) with (- ((- x) / y)) by (field; lra).
        assert (0 < - x / y) by (apply Rdiv_lt_0_compat; lra). lra.
      + assert (x = 0) by lra. subst x. destruct (Rlt_dec 0 y); [|lra].
        replace (0 / y) with 0 by (field; lra). rewrite atan_0. lra.
  Qed.

  Lemma atan2_lower y x : y < 0 -> atan2_R y x = - PI / 2 - atan (x / y).
  Proof.
    intros Hy. unfold atan2_R.
    destruct (Rlt_dec 0 x) as [Hx|Hx].
    - replace (y / x) with (/ (x / y)) by (field; lra).
      rewrite atan_inv_neg; [reflexivity|].
      replace (x / y) with (- (x / - y)) by (field; lra).
      assert (0 < x / - y) by (apply Rdiv_lt_0_compat; lra). lra.
    - destruct (Rlt_dec x 0) as [Hx'|Hx'].
      + destruct (Rle_dec 0 y); [lra|].
        replace (y / x) with (/ (x / y)) by (field; lra).
        rewrite atan_inv; [lra|].
        replace (x / y) with ((- x) / (- y)) by (field; lra). apply Rdiv_lt_0_compat; lra.
      + assert (x = 0) by lra. subst x. destruct (Rlt_dec 0 y); [lra|]. destruct (Rlt_dec y 0); [|lra].
        replace (0 / y) with 0 by (field; lra). rewrite atan_0. lra.
  Qed.

  Lemma bd_atan2_chart (c : R) (sgn : R -> Prop) l r :
    (forall y x, sgn y -> atan2_R y x = c - atan (x / y)) ->
    (forall y, sgn y -> y <> 0) -> sgn l ->
    (forall (B : R -> R) t0, continuous B t0 -> sgn (B t0) -> locally t0 (fun t => sgn (B t))) ->
    bin_der atan2_R l r (r / (r * r + l * l)) (- l / (r * r + l * l)).
  Proof.
    intros Hchart Hnz Hl Hopen A B t0 da db EA EB HA HB.
    assert (HA' : ex_derive A t0) by (eexists; eauto).
    assert (HB' : ex_derive B t0) by (eexists; eauto).
    apply (is_derive_ext_loc (fun t => c - atan (B t / A t))).
    - pose proof (ex_derive_continuous A t0 HA') as Hc.
      assert (Hloc : locally t0 (fun t => sgn (A t))) by (apply Hopen; [exact Hc | rewrite EA; exact Hl]).
      revert Hloc. apply filter_imp. intros t Ht. symmetry. apply Hchart. exact Ht.
    - assert (Hl0 : l <> 0) by (apply Hnz; exact Hl).
      auto_derive.
      + repeat split; auto. rewrite EA; exact Hl0.
      + replace (Derive (fun x => A x) t0) with da by (symmetry; apply is_derive_unique; exact HA).
        replace (Derive (fun x => B x) t0) with db by (symmetry; apply is_derive_unique; exact HB).
        rewrite EA, EB. field. split; [nra|exact Hl0].
  Qed.

  Lemma bd_atan2 l r : 0 < r \/ l <> 0 ->
    bin_der atan2_R l r (r / (r * r + l * l)) (- l / (r * r + l * l)).
  Proof.
    intros [Hr|Hl]; [apply bd_atan2_right; exact Hr|].
    destruct (Rlt_dec 0 l) as [Hp|Hp].
    - apply (bd_atan2_chart (PI / 2) (fun y => 0 < y)); auto.
      + intros; apply atan2_upper; auto.
      + intros; lra.
      + intros B t0 Hc Hs. specialize (Hc (fun y : R => 0 < y)). apply Hc. apply (open_gt 0 (B t0)). exact Hs.
    - assert (Hn : l < 0) by lra.
      apply (bd_atan2_chart (- PI / 2) (fun y => y < 0)); auto.
      + intros; apply atan2_lower; auto.
      + intros; lra.
      + intros B t0 Hc Hs. specialize (Hc (fun y : R => y < 0)). apply Hc. apply (open_lt 0 (B t0)). exact Hs.
  Qed.
End BinDer.

(* ---------- what a generated binary body may return ---------- *)
(* lu / ru : is the left / right operand an uncertain number (its components are then
   propagated) or a plain number (its weight is irrelevant) *)
Definition sem_ok (f : R -> R -> R) (lu ru : bool) (l r : R) (res : opres R) : Prop :=
  match res with
  | OMergeW y wl wr => lu = true /\ ru = true /\ y = f l r /\ bin_der f l r wl wr
  | OMerge y => lu = true /\ ru = true /\ y = f l r /\ bin_der f l r 1 1
  | OScale L y w => lu = true /\ y = f l r /\ exists wr, bin_der f l r w wr /\ (ru = true -> wr = 0)
  | OScale Rt y w => ru = true /\ y = f l r /\ exists wl, bin_der f l r wl w /\ (lu = true -> wl = 0)
  | OSame L => lu = true /\ l = f l r /\ exists wr, bin_der f l r 1 wr /\ (ru = true -> wr = 0)
  | OSame Rt => ru = true /\ r = f l r /\ exists wl, bin_der f l r wl 1 /\ (lu = true -> wl = 0)
  | OPlain y => y = f l r /\ exists wl wr, bin_der f l r wl wr /\ (lu = true -> wl = 0) /\ (ru = true -> wr = 0)
  | ONegOf Rt => ru = true /\ - r = f l r /\ exists wl, bin_der f l r wl (-1) /\ (lu = true -> wl = 0)
  | OToComplex => True
  | _ => False
  end.

Ltac bin_start :=
  intros l r res H; match type of H with ?g RNum l r = _ => unfold g in H end; rn_inv H; subst res;
  change (T RNum) with R in *.

Ltac split4 := split; [reflexivity | split; [reflexivity | split; [auto | ]]].

Lemma Reqb_true a b : Reqb a b = true -> a = b.
Proof. unfold Reqb; destruct (Req_EM_T a b); congruence. Qed.

(* + *)
Lemma g_add_un_ok l r res : g_add_un RNum l r = Ok res -> sem_ok Rplus true true l r res.
Proof. revert l r res; bin_start. split4. apply bd_add. Qed.

Lemma g_add_num_ok l r res : g_add_num RNum l r = Ok res -> sem_ok Rplus true false l r res.
Proof.
  revert l r res; bin_start.
  - split; auto. split; [simpl in *; lra|]. exists 1; split; [apply bd_add|discriminate].
  - split; auto. split; auto. exists 1; split; [simpl; replace (1 * 1) with 1 by ring; apply bd_add|discriminate].
Qed.

Lemma g_radd_num_ok l r res : g_radd_num RNum l r = Ok res -> sem_ok Rplus false true l r res.
Proof.
  revert l r res; bin_start.
  - split; auto. split; [simpl in *; lra|]. exists 1; split; [apply bd_add|discriminate].
  - split; auto. split; auto. exists 1; split; [simpl; replace (1 * 1) with 1 by ring; apply bd_add|discriminate].
Qed.

(* - *)
Lemma g_sub_un_ok l r res : g_sub_un RNum l r = Ok res -> sem_ok Rminus true true l r res.
Proof.
  revert l r res; bin_start. split4. simpl. replace (1 * 1) with 1 by ring. apply bd_sub.
Qed.

Lemma g_sub_num_ok l r res : g_sub_num RNum l r = Ok res -> sem_ok Rminus true false l r res.
Proof.
  revert l r res; bin_start.
  - split; auto. split; [simpl in *; lra|]. exists (-1); split; [apply bd_sub|discriminate].
  - split; auto. split; auto. exists (-1); split; [simpl; replace (1 * 1) with 1 by ring; apply bd_sub|discriminate].
Qed.

Lemma g_rsub_num_ok l r res : g_rsub_num RNum l r = Ok res -> sem_ok Rminus false true l r res.
Proof.
  revert l r res; bin_start.
  - split; auto. split; [simpl in *; lra|]. exists 1; split; [apply bd_sub|discriminate].
  - split; auto. split; auto. exists 1; split; [simpl; replace (- (1 * 1)) with (-1) by ring; apply bd_sub|discriminate].
Qed.

(* * *)
Lemma g_mul_un_ok l r res : g_mul_un RNum l r = Ok res -> sem_ok Rmult true true l r res.
Proof. revert l r res; bin_start. split4. apply bd_mul. Qed.

Lemma g_mul_num_ok l r res : g_mul_num RNum l r = Ok res -> sem_ok Rmult true false l r res.
Proof.
  revert l r res; bin_start.
  - assert (Hr : r = 1) by (simpl in *; lra). rewrite Hr in *.
    split; auto. split; [ring|]. exists l; split; [apply bd_mul|discriminate].
  - split; auto. split; auto. exists l; split; [apply bd_mul|discriminate].
Qed.

Lemma g_rmul_num_ok l r res : g_rmul_num RNum l r = Ok res -> sem_ok Rmult false true l r res.
Proof.
  revert l r res; bin_start.
  - assert (Hl : l = 1) by (simpl in *; lra). rewrite Hl in *.
    split; auto. split; [ring|]. exists r; split; [apply bd_mul|discriminate].
  - split; auto. split; auto. exists r; split; [apply bd_mul|discriminate].
Qed.

(* / *)
Lemma g_div_un_ok l r res : g_div_un RNum l r = Ok res -> sem_ok Rdiv true true l r res.
Proof.
  revert l r res; bin_start. split4. simpl. replace (1 * 1 / r) with (1 / r) by (field; auto).
  apply bd_div; auto.
Qed.

Lemma g_div_num_ok l r res : g_div_num RNum l r = Ok res -> sem_ok Rdiv true false l r res.
Proof.
  revert l r res; bin_start.
  - assert (Hr : r = 1) by (simpl in *; lra). rewrite Hr in *.
    split; auto. split; [field|]. exists (- (l / 1) / 1); split; [|discriminate].
    pose proof (bd_div l 1 ltac:(lra)) as Hb. replace (1 / 1) with 1 in Hb by field. exact Hb.
  - split; auto. split; auto. exists (- (l / r) / r); split; [|discriminate].
    simpl. replace (1 * 1 / r) with (1 / r) by (field; auto). apply bd_div; auto.
Qed.

Lemma g_rdiv_num_ok l r res : g_rdiv_num RNum l r = Ok res -> sem_ok Rdiv false true l r res.
Proof.
  revert l r res; bin_start. split; auto. split; auto. exists (1 / r); split; [apply bd_div; auto|discriminate].
Qed.

(* ** and atan2, on the regular part of their domain *)
Lemma pow_R_pos l r : 0 < l -> pow_R l r = Ok (Rpower l r).
Proof.
  intros Hl. unfold pow_R.
  destruct (Req_EM_T r (IZR (Int_part r))) as [E|E].
  - destruct (Req_EM_T l 0); [lra|]. rewrite powerRZ_Rpower by auto. rewrite <- E. reflexivity.
  - destruct (Rlt_dec 0 l); [reflexivity|tauto].
Qed.

Ltac pow_start H l :=
  cbv beta iota zeta delta [bind libm1 libm2 RNum R_libm1 R_libm2 of_Z dyad sub mul add neg nabs T
                            pow_guard eqb Reqb negb] in H;
  rewrite ?(pow_R_pos l) in H by assumption.

Lemma g_pow_un_ok_R l r res : 0 < l ->
  g_pow_un RNum l r = Ok res -> sem_ok Rpower true true l r res.
Proof.
  intros Hl H. unfold g_pow_un in H. pow_start H l.
  destruct (Req_EM_T l (IZR 0)); [lra|].
  rewrite Rabs_pos_eq in H by lra.
  destruct (Rlt_dec 0 l); [|tauto].
  cbv beta iota in H. injection H as H; subst res.
  split4. replace (ln l * Rpower l r) with (ln l * Rpower l r) by ring. apply bd_pow; auto.
Qed.

Lemma g_pow_num_ok_R l r res : 0 < l ->
  g_pow_num RNum l r = Ok res -> sem_ok Rpower true false l r res.
Proof.
  intros Hl H. unfold g_pow_num in H. pow_start H l.
  destruct (Req_EM_T r (IZR 0)) as [E0|E0].
  - injection H as H; subst res. simpl in E0. subst r.
    split. { rewrite Rpower_O; auto. simpl; ring. }
    exists (0 * Rpower l (0 - 1)), (ln l * Rpower l 0). split; [apply bd_pow; auto|].
    split; [intros _; ring|discriminate].
  - destruct (Req_EM_T r (IZR 1)) as [E1|E1].
    + injection H as H; subst res. simpl in E1. subst r.
      split; auto. split. { rewrite Rpower_1; auto. }
      exists (ln l * Rpower l 1). split; [|discriminate].
      pose proof (bd_pow l 1 Hl) as Hb. replace (1 - 1) with 0 in Hb by ring.
      rewrite Rpower_O in Hb by auto. replace (1 * 1) with 1 in Hb by ring. exact Hb.
    + cbv beta iota in H. injection H as H; subst res.
      split; auto. split; auto. exists (ln l * Rpower l r). split; [apply bd_pow; auto|discriminate].
Qed.

Lemma g_rpow_num_ok_R l r res : 0 < l ->
  g_rpow_num RNum l r = Ok res -> sem_ok Rpower false true l r res.
Proof.
  intros Hl H. unfold g_rpow_num in H. pow_start H l.
  destruct (Req_EM_T l (IZR 0)); [lra|].
  rewrite Rabs_pos_eq in H by lra.
  destruct (Rlt_dec 0 l); [|tauto].
  cbv beta iota in H. injection H as H; subst res.
  split; auto. split; auto. exists (r * Rpower l (r - 1)). split; [apply bd_pow; auto|discriminate].
Qed.

(* ---- from Rpower on positive bases to Python's ** (pow_sem): they agree near every l > 0 ---- *)
Lemma pow_sem_pos l r : 0 < l -> pow_sem l r = Rpower l r.
Proof. intros H. unfold pow_sem. rewrite pow_R_pos by assumption. reflexivity. Qed.

Lemma bin_der_pow_sem l r wl wr : 0 < l -> bin_der Rpower l r wl wr -> bin_der pow_sem l r wl wr.
Proof.
  intros Hl H A B t0 da db EA EB HA HB.
  apply (is_derive_ext_loc (fun t => Rpower (A t) (B t))); [|apply H; assumption].
  assert (HEX : ex_derive A t0) by (eexists; exact HA).
  pose proof (ex_derive_continuous A t0 HEX) as Hc.
  assert (Hloc : locally t0 (fun t => 0 < A t)).
  { specialize (Hc (fun y : R => 0 < y)). apply Hc. apply (open_gt 0 (A t0)). rewrite EA; exact Hl. }
  revert Hloc. apply filter_imp. intros t Ht. symmetry. apply pow_sem_pos. exact Ht.
Qed.

Lemma sem_ok_pow_sem lu ru l r res : 0 < l -> sem_ok Rpower lu ru l r res -> sem_ok pow_sem lu ru l r res.
Proof.
  intros Hl. pose proof (pow_sem_pos l r Hl) as E. pose proof (fun wl wr => bin_der_pow_sem l r wl wr Hl) as M.
  destruct res as [w|y|y|w y wt|y w1 w2|y|w y|w| | ]; try destruct w; cbn [sem_ok]; rewrite ?E; try tauto.
  - intros [H1 [H2 [wr [H3 H4]]]]. eauto 8.
  - intros [H1 [H2 [wl [H3 H4]]]]. eauto 8.
  - intros [H2 [wl [wr [H3 H4]]]]. eauto 8.
  - intros [H1 [H2 [wr [H3 H4]]]]. eauto 8.
  - intros [H1 [H2 [wl [H3 H4]]]]. eauto 8.
  - intros [H1 [H2 [H3 H4]]]. eauto 8.
  - intros [H1 [H2 [H3 H4]]]. eauto 8.
  - intros [H1 [H2 [wl [H3 H4]]]]. eauto 8.
Qed.

Lemma g_pow_un_ok l r res : 0 < l -> g_pow_un RNum l r = Ok res -> sem_ok pow_sem true true l r res.
Proof. intros Hl H. apply sem_ok_pow_sem; [exact Hl|]. apply g_pow_un_ok_R; assumption. Qed.
Lemma g_pow_num_ok l r res : 0 < l -> g_pow_num RNum l r = Ok res -> sem_ok pow_sem true false l r res.
Proof. intros Hl H. apply sem_ok_pow_sem; [exact Hl|]. apply g_pow_num_ok_R; assumption. Qed.
Lemma g_rpow_num_ok l r res : 0 < l -> g_rpow_num RNum l r = Ok res -> sem_ok pow_sem false true l r res.
Proof. intros Hl H. apply sem_ok_pow_sem; [exact Hl|]. apply g_rpow_num_ok_R; assumption. Qed.

(* ---- x ** n for a plain integer-valued exponent and ANY base: negative, and zero for n >= 0 ---- *)
Lemma pow_R_int_ok x n v : pow_R x (IZR n) = Ok v -> v = powerRZ x n /\ (x <> 0 \/ (0 <= n)%Z).
Proof.
  rewrite pow_R_int. destruct (Req_EM_T x 0) as [E|E].
  - destruct (Z.ltb_spec n 0); [discriminate|]. intros [= <-]. split; [reflexivity|right; assumption].
  - intros [= <-]. split; [reflexivity|left; assumption].
Qed.

Lemma bd_pow_int l n r : l <> 0 \/ (0 <= n)%Z ->
  bin_der (fun a _ => pow_sem a (IZR n)) l r (IZR n * powerRZ l (n - 1)) 0.
Proof.
  intros Hc A B t0 da db EA EB HA HB.
  eapply is_derive_eq'; [apply (is_derive_pow_sem_int A t0 da n HA); rewrite EA; exact Hc|].
  rewrite EA. ring.
Qed.

Lemma g_pow_num_int_ok l n res :
  g_pow_num RNum l (IZR n) = Ok res -> sem_ok (fun a _ => pow_sem a (IZR n)) true false l (IZR n) res.
Proof.
  intros H. unfold g_pow_num in H.
  cbv beta iota zeta delta [bind libm1 libm2 RNum R_libm1 R_libm2 of_Z dyad sub mul add neg nabs T
                            pow_guard eqb Reqb negb] in H.
  change (T RNum) with R in *.
  destruct (Req_EM_T (IZR n) (IZR 0)) as [E0|E0].
  - apply eq_IZR in E0. subst n. injection H as <-. cbn [sem_ok]. split.
    + rewrite pow_sem_int by (right; lia). simpl. ring.
    + exists 0, 0. split; [|split; [reflexivity|discriminate]].
      pose proof (bd_pow_int l 0 (IZR 0) (or_intror (Z.le_refl 0))) as Hb.
      replace (IZR 0 * powerRZ l (0 - 1)) with 0 in Hb by (simpl; ring). exact Hb.
  - destruct (Req_EM_T (IZR n) (IZR 1)) as [E1|E1].
    + apply eq_IZR in E1. subst n. injection H as <-. cbn [sem_ok]. split; [reflexivity|]. split.
      * rewrite pow_sem_int by (right; lia). simpl. ring.
      * exists 0. split; [|discriminate].
        pose proof (bd_pow_int l 1 (IZR 1) (or_intror Z.le_0_1)) as Hb.
        replace (IZR 1 * powerRZ l (1 - 1)) with 1 in Hb by (simpl; ring). exact Hb.
    + destruct (pow_R l (IZR n)) as [y|e] eqn:Ep.
      2:{ destruct e; try discriminate; injection H as <-; exact Logic.I. }
      destruct (pow_R_int_ok _ _ _ Ep) as [-> Hc].
      assert (Hn0 : n <> 0%Z) by (intros ->; apply E0; reflexivity).
      assert (Hn1 : n <> 1%Z) by (intros ->; apply E1; reflexivity).
      assert (Hc1 : l <> 0 \/ (0 <= n - 1)%Z) by (destruct Hc; [left; assumption|right; lia]).
      rewrite <- minus_IZR, pow_R_int in H.
      assert (Hp : (if Req_EM_T l 0 then if (n - 1 <? 0)%Z then Err ZeroDivisionError else Ok (powerRZ l (n - 1))
                    else Ok (powerRZ l (n - 1))) = Ok (powerRZ l (n - 1))).
      { destruct (Req_EM_T l 0); [|reflexivity]. destruct (Z.ltb_spec (n - 1) 0); [|reflexivity].
        destruct Hc1; [contradiction|lia]. }
      rewrite Hp in H. cbv beta iota in H. injection H as <-. cbn [sem_ok].
      split; [reflexivity|]. split; [symmetry; apply pow_sem_int; exact Hc|].
      exists 0. split; [apply bd_pow_int; exact Hc|discriminate].
Qed.

(* the generated body on such an exponent, in closed form (used by the non-vacuity example) *)
Lemma g_pow_num_int_eval l n : l <> 0 -> n <> 0%Z -> n <> 1%Z ->
  g_pow_num RNum l (IZR n) = Ok (OScale L (powerRZ l n) (IZR n * powerRZ l (n - 1))).
Proof.
  intros Hl H0 H1. unfold g_pow_num.
  cbv beta iota zeta delta [bind libm1 libm2 RNum R_libm1 R_libm2 of_Z dyad sub mul add neg nabs T
                            pow_guard eqb Reqb negb].
  change (T RNum) with R in *.
  destruct (Req_EM_T (IZR n) (IZR 0)) as [E|_]; [apply eq_IZR in E; contradiction|].
  destruct (Req_EM_T (IZR n) (IZR 1)) as [E|_]; [apply eq_IZR in E; contradiction|].
  rewrite <- minus_IZR, !pow_R_int. destruct (Req_EM_T l 0); [contradiction|]. reflexivity.
Qed.

Ltac atan2_start H :=
  cbv beta iota zeta delta [bind libm1 libm2 RNum R_libm1 R_libm2 of_Z dyad sub mul add neg nabs T
                            div R_div eqb Reqb negb] in H;
  rewrite !pow_R_2 in H;
  cbv beta iota zeta delta [bind] in H.

Lemma g_atan2_re_re_ok l r res : 0 < r \/ l <> 0 ->
  g_atan2_re_re RNum l r = Ok res -> sem_ok atan2_R true true l r res.
Proof.
  intros Hr H. unfold g_atan2_re_re in H. atan2_start H.
  assert (Hd : r * r + l * l <> 0) by (destruct Hr; nra).
  destruct (Req_EM_T (r * r + l * l) (IZR 0 * powerRZ 2 0)) as [E|E]; [simpl in E; lra|].
  destruct (Req_EM_T (r * r + l * l) 0); [tauto|].
  cbv beta iota zeta delta [bind] in H. injection H as H; subst res.
  split4. apply bd_atan2; auto.
Qed.

Lemma g_atan2_x_re_ok l r res : 0 < r \/ l <> 0 ->
  g_atan2_x_re RNum l r = Ok res -> sem_ok atan2_R false true l r res.
Proof.
  intros Hr H. unfold g_atan2_x_re in H. atan2_start H.
  assert (Hd : r * r + l * l <> 0) by (destruct Hr; nra).
  destruct (Req_EM_T (r * r + l * l) (IZR 0 * powerRZ 2 0)) as [E|E]; [simpl in E; lra|].
  destruct (Req_EM_T (r * r + l * l) 0); [tauto|].
  cbv beta iota zeta delta [bind] in H. injection H as H; subst res.
  split; auto. split; auto. exists (r / (r * r + l * l)). split; [apply bd_atan2; auto|discriminate].
Qed.

Lemma g_atan2_re_x_ok l r res : 0 < r \/ l <> 0 ->
  g_atan2_re_x RNum l r = Ok res -> sem_ok atan2_R true false l r res.
Proof.
  intros Hr H. unfold g_atan2_re_x in H. atan2_start H.
  assert (Hd : r * r + l * l <> 0) by (destruct Hr; nra).
  destruct (Req_EM_T (r * r + l * l) (IZR 0 * powerRZ 2 0)) as [E|E]; [simpl in E; lra|].
  destruct (Req_EM_T (r * r + l * l) 0); [tauto|].
  cbv beta iota zeta delta [bind] in H. injection H as H; subst res.
  split; auto. split; auto. exists (- l / (r * r + l * l)). split; [apply bd_atan2; auto|discriminate].
Qed.

(* ---------- soundness of one operator application ---------- *)
Notation operand := (Kernel.operand RNum).

Section Main.
  Variable U : key -> R.
  Variable I : key -> bool.
  Variable e0 : env.

  Definition DenOp (o : operand) (F : env -> R) : Prop :=
    match o with
    | OpdU a => Den U I e0 a F
    | OpdN v => F e0 = v /\ forall k, is_derive (fun t => F (upd e0 k t)) (e0 k) 0
    end.

  Definition isU (o : operand) : bool := match o with OpdU _ => true | OpdN _ => false end.
  Definition valOp (o : operand) : R := match o with OpdU a => ux a | OpdN v => v end.
  Definition compOp (o : operand) (k : key) : R := match o with OpdU a => comp a k | OpdN _ => 0 end.

  Lemma DenOp_val o F : DenOp o F -> valOp o = F e0.
  Proof. destruct o; simpl; [intros [H _ _ _ _ _]; auto | intros [H _]; auto]. Qed.

  Lemma DenOp_der o F k : DenOp o F ->
    exists D, is_derive (fun t => F (upd e0 k t)) (e0 k) D /\ compOp o k = U k * D /\
              (isU o = false -> D = 0).
  Proof.
    destruct o as [a|v]; simpl.
    - intros [_ _ _ _ _ Hd]. destruct (Hd k) as [D [H1 H2]]. exists D. split; [auto|split; [auto|intros E; discriminate E]].
    - intros [_ Hd]. exists 0. split; [auto|split; [ring|auto]].
  Qed.

  Lemma den_bin_gen a b Fa Fb (f : R -> R -> R) y wl wr cu cd i nd :
    DenOp a Fa -> DenOp b Fb -> y = f (valOp a) (valOp b) ->
    bin_der f (valOp a) (valOp b) wl wr ->
    sorted cu -> sorted cd ->
    (forall k, In k (keys cu) -> I k = true) -> (forall k, In k (keys cd) -> I k = false) ->
    (forall k, get0 cu k + get0 cd k = wl * compOp a k + wr * compOp b k) ->
    Den U I e0 (mkU y cu cd i nd) (fun e => f (Fa e) (Fb e)).
  Proof.
    intros Ha Hb Hy Hf Su Sd Ku Kd Hlin.
    pose proof (DenOp_val _ _ Ha) as Va. pose proof (DenOp_val _ _ Hb) as Vb.
    split; simpl; auto.
    - rewrite <- Va, <- Vb; auto.
    - intros k. destruct (DenOp_der _ _ k Ha) as [Da [A1 [A2 _]]].
      destruct (DenOp_der _ _ k Hb) as [Db [B1 [B2 _]]].
      exists (wl * Da + wr * Db). split.
      + apply (Hf (fun t => Fa (upd e0 k t)) (fun t => Fb (upd e0 k t))); auto;
          rewrite upd_same; auto.
      + unfold comp; cbn [uc dc]. rewrite Hlin, A2, B2. ring.
  Qed.

  Lemma ureal_eta (a : ureal) : a = mkU (ux a) (uc a) (dc a) (ic a) (unode a).
  Proof. destruct a; reflexivity. Qed.

  Lemma Den_sorted a F : Den U I e0 a F -> sorted (uc a) /\ sorted (dc a).
  Proof. intros [_ H1 H2 _ _ _]; auto. Qed.

  Lemma Den_keys a F : Den U I e0 a F ->
    (forall k, In k (keys (uc a)) -> I k = true) /\ (forall k, In k (keys (dc a)) -> I k = false).
  Proof. intros [_ _ _ H1 H2 _]; auto. Qed.

  Lemma keys_scale (v : list (key * R)) w : keys (scale v w) = keys v.
  Proof. unfold Vector.scale; apply keys_vmap. Qed.

  Lemma realize_sound f a b oa ob Fa Fb res v o' :
    DenOp a Fa -> DenOp b Fb ->
    (forall o, a = OpdU o -> oa = o) -> (forall o, b = OpdU o -> ob = o) ->
    sem_ok f (isU a) (isU b) (valOp a) (valOp b) res ->
    realize RNum res oa ob = Ok v -> of_opval RNum v oa ob = Ok o' ->
    DenOp o' (fun e => f (Fa e) (Fb e)).
  Proof.
    intros Ha Hb Ea Eb Hs Hr Ho.
    destruct res as [w|y|y|w y wt|y w1 w2|y|w y|w| | ]; simpl in Hs; try contradiction.
    - (* OSame *)
      destruct w.
      + destruct Hs as [Hlu [Hy [wr [Hbd Hwr]]]].
        destruct a as [a0|]; [|discriminate]. specialize (Ea _ eq_refl); subst oa.
        simpl in Hr. injection Hr as <-. simpl in Ho. injection Ho as <-.
        simpl. rewrite (ureal_eta a0). simpl in Ha. destruct (Den_sorted _ _ Ha) as [S1 S2]. destruct (Den_keys _ _ Ha) as [K1 K2].
        apply (den_bin_gen (OpdU a0) b Fa Fb f (ux a0) 1 wr); auto.
        intros k. destruct (DenOp_der _ _ k Hb) as [Db [_ [B2 B3]]]. simpl compOp at 1. unfold comp.
        destruct b as [b0|vb]; simpl in *.
        * rewrite (Hwr eq_refl). ring.
        * ring.
      + destruct Hs as [Hru [Hy [wl [Hbd Hwl]]]].
        destruct b as [b0|]; [|discriminate]. specialize (Eb _ eq_refl); subst ob.
        simpl in Hr. injection Hr as <-. simpl in Ho. injection Ho as <-.
        simpl. rewrite (ureal_eta b0). simpl in Hb. destruct (Den_sorted _ _ Hb) as [S1 S2]. destruct (Den_keys _ _ Hb) as [K1 K2].
        apply (den_bin_gen a (OpdU b0) Fa Fb f (ux b0) wl 1); auto.
        intros k. simpl compOp at 2. unfold comp.
        destruct a as [a0|va]; simpl in *.
        * rewrite (Hwl eq_refl). ring.
        * ring.
    - (* OPlain *)
      destruct Hs as [Hy [wl [wr [Hbd [Hwl Hwr]]]]].
      simpl in Hr. injection Hr as <-. simpl in Ho. injection Ho as <-.
      pose proof (DenOp_val _ _ Ha) as Va. pose proof (DenOp_val _ _ Hb) as Vb.
      simpl. split; [rewrite <- Va, <- Vb; auto|].
      intros k. destruct (DenOp_der _ _ k Ha) as [Da [A1 [_ A3]]].
      destruct (DenOp_der _ _ k Hb) as [Db [B1 [_ B3]]].
      eapply is_derive_eq.
      + apply (Hbd (fun t => Fa (upd e0 k t)) (fun t => Fb (upd e0 k t))); eauto;
          rewrite upd_same; auto.
      + assert (wl * Da = 0).
        { destruct (isU a) eqn:E; [rewrite Hwl by auto; ring | rewrite A3 by auto; ring]. }
        assert (wr * Db = 0).
        { destruct (isU b) eqn:E; [rewrite Hwr by auto; ring | rewrite B3 by auto; ring]. }
        lra.
    - (* OScale *)
      destruct w.
      + destruct Hs as [Hlu [Hy [wr [Hbd Hwr]]]].
        destruct a as [a0|]; [|discriminate]. specialize (Ea _ eq_refl); subst oa.
        simpl in Hr. injection Hr as <-. simpl in Ho. injection Ho as <-.
        simpl in Ha. destruct (Den_sorted _ _ Ha) as [S1 S2]. destruct (Den_keys _ _ Ha) as [K1 K2].
        simpl. unfold new_un.
        apply (den_bin_gen (OpdU a0) b Fa Fb f y wt wr); auto.
        * apply sorted_scale; auto.
        * apply sorted_scale; auto.
        * intros k; rewrite keys_scale; auto.
        * intros k; rewrite keys_scale; auto.
        * intros k. rewrite !get0_scale. simpl compOp at 1. unfold comp.
          destruct b as [b0|vb]; simpl in *; [rewrite (Hwr eq_refl)|]; ring.
      + destruct Hs as [Hru [Hy [wl [Hbd Hwl]]]].
        destruct b as [b0|]; [|discriminate]. specialize (Eb _ eq_refl); subst ob.
        simpl in Hr. injection Hr as <-. simpl in Ho. injection Ho as <-.
        simpl in Hb. destruct (Den_sorted _ _ Hb) as [S1 S2]. destruct (Den_keys _ _ Hb) as [K1 K2].
        simpl. unfold new_un.
        apply (den_bin_gen a (OpdU b0) Fa Fb f y wl wt); auto.
        * apply sorted_scale; auto.
        * apply sorted_scale; auto.
        * intros k; rewrite keys_scale; auto.
        * intros k; rewrite keys_scale; auto.
        * intros k. rewrite !get0_scale. simpl compOp at 2. unfold comp.
          destruct a as [a0|va]; simpl in *; [rewrite (Hwl eq_refl)|]; ring.
    - (* OMergeW *)
      destruct Hs as [Hlu [Hru [Hy Hbd]]].
      destruct a as [a0|]; [|discriminate]. destruct b as [b0|]; [|discriminate].
      specialize (Ea _ eq_refl); specialize (Eb _ eq_refl); subst oa ob.
      simpl in Hr. injection Hr as <-. simpl in Ho. injection Ho as <-.
      simpl in *. unfold new_un.
      pose proof (den_val _ _ _ _ _ Ha) as Va. pose proof (den_val _ _ _ _ _ Hb) as Vb.
      apply den_merge_w; auto; rewrite <- Va, <- Vb; auto.
    - (* OMerge *)
      destruct Hs as [Hlu [Hru [Hy Hbd]]].
      destruct a as [a0|]; [|discriminate]. destruct b as [b0|]; [|discriminate].
      specialize (Ea _ eq_refl); specialize (Eb _ eq_refl); subst oa ob.
      simpl in Hr. injection Hr as <-. simpl in Ho. injection Ho as <-.
      simpl in *. unfold new_un.
      pose proof (den_val _ _ _ _ _ Ha) as Va. pose proof (den_val _ _ _ _ _ Hb) as Vb.
      apply den_merge; auto; rewrite <- Va, <- Vb; auto.
    - (* ONegOf *)
      destruct w; [contradiction|].
      destruct Hs as [Hru [Hy [wl [Hbd Hwl]]]].
      destruct b as [b0|]; [|discriminate]. specialize (Eb _ eq_refl); subst ob.
      simpl in Hr. injection Hr as <-. simpl in Ho. injection Ho as <-.
      simpl in Hb. destruct (Den_sorted _ _ Hb) as [S1 S2]. destruct (Den_keys _ _ Hb) as [K1 K2].
      simpl. unfold neg_of, new_un.
      apply (den_bin_gen a (OpdU b0) Fa Fb f (- ux b0) wl (-1)); auto.
      * apply sorted_scale; auto.
      * apply sorted_scale; auto.
      * intros k; rewrite keys_scale; auto.
      * intros k; rewrite keys_scale; auto.
      * intros k. rewrite !get0_scale. simpl compOp at 2. unfold comp.
        unfold one; cbn [neg of_Z RNum].
        destruct a as [a0|va]; simpl in *; [rewrite (Hwl eq_refl)|]; ring.
    - (* OToComplex *)
      simpl in Hr. injection Hr as <-. simpl in Ho. discriminate.
  Qed.
End Main.

(* ---------- the generated operator table, by operand kinds ---------- *)
(* phase(x) of an uncertain REAL is the constant 0 in lib.py: right for x > 0 only.
   ** : a positive base with any exponent (reg_bin), or ANY base (negative, zero) with a plain
   integer-valued exponent (the second alternative in `regular` below). *)
Definition reg_un (f : unop) (x : R) : Prop :=
  match f with U_phase => 0 < x | _ => True end.

Definition reg_bin (f : binop) (l r : R) : Prop :=
  match f with B_pow => 0 < l | B_atan2 => 0 < r \/ l <> 0 | _ => True end.

Lemma g_bin_uu_ok f l r res : reg_bin f l r ->
  g_bin_uu RNum f l r = Ok res -> sem_ok (binop_R f) true true l r res.
Proof.
  destruct f; simpl; intros Hreg H.
  - apply g_add_un_ok; auto. - apply g_sub_un_ok; auto. - apply g_mul_un_ok; auto.
  - apply g_div_un_ok; auto. - apply g_pow_un_ok; auto. - apply g_atan2_re_re_ok; auto.
Qed.

Lemma g_bin_un_ok f l r res : reg_bin f l r ->
  g_bin_un RNum f l r = Ok res -> sem_ok (binop_R f) true false l r res.
Proof.
  destruct f; simpl; intros Hreg H.
  - apply g_add_num_ok; auto. - apply g_sub_num_ok; auto. - apply g_mul_num_ok; auto.
  - apply g_div_num_ok; auto. - apply g_pow_num_ok; auto. - apply g_atan2_re_x_ok; auto.
Qed.

Lemma g_bin_nu_ok f l r res : reg_bin f l r ->
  g_bin_nu RNum f l r = Ok res -> sem_ok (binop_R f) false true l r res.
Proof.
  destruct f; simpl; intros Hreg H.
  - apply g_radd_num_ok; auto. - apply g_rsub_num_ok; auto. - apply g_rmul_num_ok; auto.
  - apply g_rdiv_num_ok; auto. - apply g_rpow_num_ok; auto. - apply g_atan2_x_re_ok; auto.
Qed.

Lemma un_as_bin (g : R -> R) l r w : is_derive g l w -> bin_der (fun a _ => g a) l r w 0.
Proof.
  intros Hg A B t0 da db EA EB HA HB.
  eapply is_derive_eq; [apply (is_derive_comp g A t0 w da); [rewrite EA; auto | auto]|].
  change (w * da + 0 * db = da * w). ring.
Qed.

(* ---------- plain real-number semantics of expression trees ---------- *)
Notation expr := (Kernel.expr RNum).

Section Sem.
  Variable Fi : nat -> env -> R.     (* what each referenced object denotes *)

  Fixpoint sem (e : expr) : env -> R :=
    match e with
    | EVar i => Fi i
    | ENum v => fun _ => v
    | EUn f e1 => fun en => unop_R f (sem e1 en)
    | EBin f e1 e2 => fun en => binop_R f (sem e1 en) (sem e2 en)
    end.

  Variable e0 : env.

  (* the points at which this development proves differentiability of ** and atan2 *)
  Fixpoint regular (e : expr) : Prop :=
    match e with
    | EVar _ | ENum _ => True
    | EUn f e1 => regular e1 /\ reg_un f (sem e1 e0)
    | EBin f e1 e2 => regular e1 /\ regular e2 /\
                      (reg_bin f (sem e1 e0) (sem e2 e0) \/ (f = B_pow /\ exists n, e2 = ENum RNum (IZR n)))
    end.
End Sem.

(* ---------- C01 + C02: the chain rule for every expression tree ---------- *)
Section ChainTheorem.
  Variable U : key -> R.
  Variable I : key -> bool.
  Variable e0 : env.
  Variable s : state.
  Variable Fi : nat -> env -> R.
  Hypothesis inputs_ok :
    forall i j o c, get_real RNum s i = Ok (j, o, c) -> Den U I e0 o (Fi i).

  Lemma denop_num v : DenOp U I e0 (OpdN v) (fun _ => v).
  Proof. simpl; split; auto. intros k. auto_derive; auto. Qed.

  Lemma un_case f oa F res v o :
    un_ok (fun N => g_unop N f) (unop_R f) -> Den U I e0 oa F ->
    g_unop RNum f (ux oa) = Ok res -> realize RNum res oa oa = Ok v ->
    of_opval RNum v oa oa = Ok o -> DenOp U I e0 o (fun en => unop_R f (F en)).
  Proof.
    intros Hok Hd Eg Er Ho.
    destruct (Hok _ _ Eg) as [y [w [-> [Hy Hder]]]].
    apply (realize_sound U I e0 (fun a _ => unop_R f a) (@OpdU RNum oa) (@OpdN RNum 0) oa oa
             F (fun _ => 0) (OScale L y w) v o Hd (denop_num 0));
      [intros ? [=]; auto | intros ? [=] | | exact Er | exact Ho].
    simpl. split; [reflexivity | split; [exact Hy | exists 0; split; [apply un_as_bin; exact Hder | discriminate]]].
  Qed.

  Theorem eval_un_sound : forall (e : expr) (o : operand),
    regular Fi e0 e -> eval_un RNum s e = Ok o -> DenOp U I e0 o (sem Fi e).
  Proof.
    induction e as [i|v|f e1 IH1|f e1 IH1 e2 IH2]; intros o Hreg Hev.
    - (* EVar *)
      simpl in Hev. destruct (get_real RNum s i) as [[[j oi] c]|] eqn:E; [|discriminate].
      simpl in Hev. injection Hev as <-. simpl. eapply inputs_ok; eauto.
    - (* ENum *)
      simpl in Hev. injection Hev as <-. apply denop_num.
    - (* EUn *)
      destruct Hreg as [Hreg Hru].
      simpl in Hev. destruct (eval_un RNum s e1) as [a|] eqn:E1; [|discriminate].
      simpl in Hev. destruct a as [oa|va]; [|discriminate].
      specialize (IH1 _ Hreg eq_refl). simpl in IH1.
      unfold apply_un in Hev.
      destruct (g_unop RNum f (ux oa)) as [res|] eqn:Eg; [|discriminate].
      simpl in Hev.
      destruct (realize RNum res oa oa) as [v|] eqn:Er; [|discriminate]. simpl in Hev.
      pose proof (g_unop_ok f) as Hok.
      pose proof (den_val _ _ _ _ _ IH1) as Va.
      destruct f; simpl in Hok;
        try (match goal with Hk : un_ok _ (unop_R ?ff) |- _ =>
               exact (un_case ff oa (sem Fi e1) res v o Hk IH1 Eg Er Hev) end).
      + (* mag_squared *)
        simpl in Eg. injection Eg as <-. simpl in Er.
        injection Er as <-. simpl in Hev. injection Hev as <-. simpl.
        unfold new_un. cbn [mul RNum].
        apply (den_merge_w U I e0 oa oa (sem Fi e1) (sem Fi e1) Rmult); auto.
        * rewrite Va; reflexivity.
        * rewrite <- Va. apply bd_mul.
      + (* phase: the code returns the constant 0, which is cmath.phase only for x > 0 *)
        simpl in Eg. injection Eg as <-. simpl in Er.
        injection Er as <-. simpl in Hev. injection Hev as <-. simpl.
        unfold mk_constant. cbn [dyad RNum]. cbn [reg_un] in Hru.
        replace (IZR 0 * powerRZ 2 0) with 0 by (simpl; ring).
        destruct IH1 as [Hv Hsu Hsd Hku Hkd Hder].
        split; cbn [ux uc dc]; auto; try (intros k []).
        * destruct (Rlt_dec (sem Fi e1 e0) 0); [lra|simpl; ring].
        * intros k. exists 0. split.
          -- destruct (Hder k) as [D [HD _]].
             apply (is_derive_ext_loc (fun _ => 0)); [|auto_derive; auto].
             set (G := fun t : R => sem Fi e1 (upd e0 k t)) in *.
             assert (HEX : ex_derive G (e0 k)) by (eexists; exact HD).
             pose proof (ex_derive_continuous G (e0 k) HEX) as Hc.
             assert (Hloc : locally (e0 k) (fun t => 0 < G t)).
             { specialize (Hc (fun y : R => 0 < y)). apply Hc.
               apply (open_gt 0 (G (e0 k))). unfold G. rewrite upd_same. exact Hru. }
             revert Hloc. apply filter_imp. intros t Ht.
             unfold G in Ht. destruct (Rlt_dec (sem Fi e1 (upd e0 k t)) 0); [lra|reflexivity].
          -- unfold comp; cbn [uc dc]. rewrite !get0_nil. ring.
      + (* pos *)
        simpl in Eg. injection Eg as <-. simpl in Er.
        injection Er as <-. simpl in Hev. injection Hev as <-. simpl.
        unfold new_un. apply den_copy. exact IH1.
    - (* EBin *)
      destruct Hreg as [Hr1 [Hr2 Hrb]].
      simpl in Hev. destruct (eval_un RNum s e1) as [a|] eqn:E1; [|discriminate].
      destruct (eval_un RNum s e2) as [b|] eqn:E2; [|discriminate].
      specialize (IH1 _ Hr1 eq_refl). specialize (IH2 _ Hr2 eq_refl).
      simpl in Hev.
      destruct (apply_bin RNum f a b) as [v|] eqn:Ea; [|discriminate]. simpl in Hev.
      pose proof (DenOp_val _ _ _ _ _ IH1) as Va. pose proof (DenOp_val _ _ _ _ _ IH2) as Vb.
      destruct Hrb as [Hrb | [Ef [n En]]].
      2:{ (* x ** n, plain integer-valued exponent, any base *)
        subst f e2. cbn [eval_un] in E2. injection E2 as <-.
        destruct a as [oa|va]; cbn [apply_bin] in Ea; [|discriminate].
        cbn [g_bin_un] in Ea.
        destruct (g_pow_num RNum (ux oa) (IZR n)) as [res|] eqn:Eg; cbn [bind] in Ea; [|discriminate].
        apply (realize_sound U I e0 (fun a _ => pow_sem a (IZR n)) (@OpdU RNum oa) (@OpdN RNum (IZR n)) oa oa
                 _ _ res v o IH1 IH2); [intros ? [=]; auto | intros ? [=] | | exact Ea | exact Hev].
        apply g_pow_num_int_ok. exact Eg. }
      rewrite <- Va, <- Vb in Hrb.
      destruct a as [oa|va], b as [ob|vb]; cbn [apply_bin] in Ea.
      + destruct (g_bin_uu RNum f (ux oa) (ux ob)) as [res|] eqn:Eg; cbn [bind] in Ea; [|discriminate].
        apply (realize_sound U I e0 (binop_R f) (@OpdU RNum oa) (@OpdU RNum ob) oa ob _ _ res v o IH1 IH2);
          [intros ? [=]; auto | intros ? [=]; auto | | exact Ea | exact Hev].
        apply g_bin_uu_ok; auto.
      + destruct (g_bin_un RNum f (ux oa) vb) as [res|] eqn:Eg; cbn [bind] in Ea; [|discriminate].
        apply (realize_sound U I e0 (binop_R f) (@OpdU RNum oa) (@OpdN RNum vb) oa oa _ _ res v o IH1 IH2);
          [intros ? [=]; auto | intros ? [=] | | exact Ea | exact Hev].
        apply g_bin_un_ok; auto.
      + destruct (g_bin_nu RNum f va (ux ob)) as [res|] eqn:Eg; cbn [bind] in Ea; [|discriminate].
        apply (realize_sound U I e0 (binop_R f) (@OpdN RNum va) (@OpdU RNum ob) ob ob _ _ res v o IH1 IH2);
          [intros ? [=] | intros ? [=]; auto | | exact Ea | exact Hev].
        apply g_bin_nu_ok; auto.
      + discriminate.
  Qed.
End ChainTheorem.

(* ---------- the link to reporting.sensitivity / reporting.u_component ---------- *)
Section Reporting.
  Variable U : key -> R.
  Variable I : key -> bool.
  Variable e0 : env.
  Variable s : state.

  (* U and I are the attributes the state records for its leaves *)
  Definition attrs_ok : Prop :=
    forall k lf, assoc (s_leaves s) k = Some lf -> l_u lf = U k /\ l_indep lf = I k.

  Lemma get0_notin (v : list (key * R)) k : ~ In k (keys v) -> get0 v k = 0.
  Proof. intros H. unfold Vector.get0. rewrite (get_none_notin RNum) by exact H. reflexivity. Qed.

  Lemma vget_get0 (v : list (key * R)) k : vget RNum v k = get0 v k.
  Proof. reflexivity. Qed.

  Lemma comp_pick y F k : Den U I e0 y F ->
    (if I k then vget RNum (uc y) k else vget RNum (dc y) k) = comp y k.
  Proof.
    intros [_ _ _ Hku Hkd _]. unfold comp. rewrite !vget_get0.
    destruct (I k) eqn:E.
    - rewrite (get0_notin (dc y) k); [symmetry; apply Rplus_0_r|]. intros Hin. apply Hkd in Hin. congruence.
    - rewrite (get0_notin (uc y) k); [symmetry; apply Rplus_0_l|]. intros Hin. apply Hku in Hin. congruence.
  Qed.

  Theorem reporting_sound y F k lf xk :
    attrs_ok -> Den U I e0 y F ->
    assoc (s_leaves s) k = Some lf -> unode xk = LeafRef k -> 0 < U k ->
    exists D, is_derive (fun t => F (upd e0 k t)) (e0 k) D /\
              u_component RNum s y xk = Ok (U k * D) /\
              sensitivity RNum s y xk = Ok D.
  Proof.
    intros Hat Hden Hlf Hx Hu.
    destruct (Hat _ _ Hlf) as [Eu Ei].
    destruct (den_der _ _ _ _ _ Hden k) as [D [H1 H2]].
    exists D. split; [exact H1|].
    pose proof (comp_pick y F k Hden) as Hp. rewrite <- Ei in Hp.
    unfold u_component, sensitivity, leaf_of. rewrite Hx. cbn [T RNum] in *. rewrite Hlf. cbn [bind].
    split.
    - rewrite Hp, H2. reflexivity.
    - rewrite Eu. cbn [ltb RNum zero of_Z]. unfold Rltb.
      destruct (Rlt_dec (IZR 0) (U k)) as [_|n]; [|exfalso; apply n; exact Hu].
      rewrite Hp, H2. cbn [div RNum]. unfold R_div.
      destruct (Req_EM_T (U k) 0); [lra|]. apply f_equal. field. lra.
  Qed.

  (* an input the result does not carry: component exactly zero *)
  Theorem absent_component_zero y k lf xk :
    assoc (s_leaves s) k = Some lf -> unode xk = LeafRef k ->
    ~ In k (keys (uc y)) -> ~ In k (keys (dc y)) ->
    u_component RNum s y xk = Ok 0.
  Proof.
    intros Hlf Hx H1 H2. unfold u_component, leaf_of. rewrite Hx. cbn [T RNum] in *. rewrite Hlf. cbn [bind].
    rewrite !vget_get0, !get0_notin by assumption. destruct (l_indep lf); reflexivity.
  Qed.
End Reporting.
